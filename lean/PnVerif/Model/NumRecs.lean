/-
  Model/NumRecs.lean — the record count (numrecs) across N ranks, memory and file header (property C05).

  Hand transcription of the numrecs handling in
    src/drivers/ncmpio/ncmpio_getput.m4   put_varm (tail: `new_numrecs`, Allreduce(MAX), ncmpio_write_numrecs, NC_NDIRTY),
                                          ncmpio_put_var (NC_REQ_ZERO -> ncmpio_getput_zero_req: no numrecs code at all)
    src/drivers/ncmpio/ncmpio_vard.c      getput_vard (tail: new_numrecs = ceil(true_ub/recsize), unconditionally)
    src/drivers/ncmpio/ncmpio_wait.c      extract_reqs (NC_REQ_TO_FREE marking, shortcuts), req_commit (`newnumrecs` loop over the
                                          FIRST num_w_lead_reqs entries of put_lead_list, do_io Allreduce), wait_getput (tail)
    src/drivers/ncmpio/ncmpio_fill.c      fill_var_rec (tail)
    src/drivers/ncmpio/ncmpio_sync.c      ncmpio_write_numrecs, ncmpio_sync_numrecs, ncmpio_sync
    src/drivers/ncmpio/ncmpio_file_misc.c ncmpio_begin_indep_data, ncmpio_end_indep_data, ncmpio_redef
    src/drivers/ncmpio/ncmpio_enddef.c    write_NC (root rewrites the whole header, numrecs included)
    src/drivers/ncmpio/ncmpio_close.c     ncmpio_close (leave independent mode; pending requests are cancelled)
  A world has any number of ranks (rank 0 = root first).  Inputs that differ between ranks are functions of
  the rank id.  `hi` and `own` are GHOST fields (the specification side): `hi` = the initial record count and
  one plus the highest record index of every completed write so far; `own` = the same for a rank's own writes.
  The code never reads them.  `step` returns `none` when the ranks block forever (deadlock).
  Only put requests are modelled as pending (no iget), so the `numGetReqs == 0` shortcuts of extract_reqs apply.
-/
namespace PnVerif.NumRecs

def maxOver (b : Nat) (l : List Nat) : Nat := l.foldl max b

/-- a pending lead put request: id, whether its variable is a record variable, lead_req->max_rec, and the two
    keys ncmpio_igetput_varm uses to keep put_lead_list sorted (SORT_LEAD_LIST_BASED_ON_VAR_BEGIN):
    `varBegin` = varp->begin, `reqOff` = varp->begin (+ recsize*start[0] for a record variable) -/
structure Pend where
  id : Nat
  isRec : Bool
  maxRec : Nat
  varBegin : Nat := 0
  reqOff : Nat := 0
  deriving DecidableEq, Repr

/-- ncmpio_igetput_varm: `for (i=numLeadPutReqs-1; i>=0; i--) { if (put_lead_list[i].varp->begin <= req_off) break; shift }`
    — the new lead request goes behind the last entry whose VARIABLE begins at or before the new request's offset -/
def insertPend (l : List Pend) (p : Pend) : List Pend :=
  let tail := (l.reverse.takeWhile fun x => !decide (x.varBegin ≤ p.reqOff)).reverse
  l.take (l.length - tail.length) ++ [p] ++ tail

structure Rank where
  id : Nat
  numrecs : Nat
  dirty : Bool := false            -- NC_NDIRTY
  pending : List Pend := []        -- put_lead_list (kept sorted by insertPend, NOT in posting order)
  own : Nat := 0                   -- ghost
  deriving DecidableEq, Repr

structure World where
  ranks : List Rank
  hdr : Nat                        -- the numrecs field of the file header (bytes 4..7 / 4..11)
  indep : Bool := false            -- NC_MODE_INDEP (switched collectively)
  hi : Nat                         -- ghost
  deriving DecidableEq, Repr

/-- what a rank passes to a blocking collective put on a record variable -/
inductive PutIn where
  | valid (recEnd : Nat)   -- accepted non-empty request, start[0]+count[0] (resp. the strided form) = recEnd; the status may be
                           -- NC_NOERR or NC_ERANGE (non-fatal: data written, `status == NC_NOERR || status == NC_ERANGE` in every tail)
  | zero                   -- accepted request that selects nothing
  | argErr                 -- non-fatal error found by the dispatcher: NC_REQ_ZERO path
  | drvErr                 -- error found in the driver: zero-length participation, varp known
  deriving DecidableEq, Repr

/-- same for ncmpi_put_vard_all; `ext` = ceil(true_ub / recsize) of the filetype -/
inductive VardIn where
  | valid (ext : Nat)
  | noData (ext : Nat)     -- bufcount = 0, or an error found after the filetype was decoded: nothing is written
  | argErr
  deriving DecidableEq, Repr

/-- request selection of wait / wait_all: NC_REQ_ALL (or NC_PUT_REQ_ALL), or an explicit list of ids -/
inductive Sel where
  | all
  | ids (l : List Nat)
  deriving DecidableEq, Repr

/-- repairs that may be present in the tree (all false = the tree as it was found) -/
structure Fix where
  /-- the NC_REQ_ZERO path of a collective put joins the numrecs Allreduce (findings/patches/C08-F2-zero-path.diff) -/
  zeroPath : Bool := false
  /-- getput_vard derives new_numrecs from the filetype only when data was written (findings/patches/C05-vard-numrecs.diff) -/
  vardGuard : Bool := false
  /-- req_commit scans the whole put_lead_list for marked requests (findings/patches/C02-req_commit-numrecs-bound.diff) -/
  waitScan : Bool := false
  /-- the dispatcher of ncmpi_fill_var_rec returns its own mode errors (NC_EINDEP in independent data mode) instead of
      dropping them and running the collective fill (findings/patches/C14-fill_var_rec-return.diff) -/
  fillMode : Bool := false
  deriving DecidableEq, Repr
def Fix.none : Fix := {}
def Fix.all : Fix := { zeroPath := true, vardGuard := true, waitScan := true, fillMode := true }

inductive Op where
  | putAll (f : Nat → PutIn)                       -- ncmpi_put_var{,1,a,s,m}*_all on a record variable
  | vardAll (f : Nat → VardIn)                     -- ncmpi_put_vard_all on a record variable
  | putIndep (r : Nat) (recEnd : Nat)              -- rank r: independent put (valid, non-empty)
  | iput (r : Nat) (id : Nat) (isRec : Bool) (recEnd : Nat) (varBegin reqOff : Nat)
                                                   -- rank r posts ncmpi_iput_*/bput_* (id is fresh)
  | waitAll (sel : Nat → Sel)                      -- ncmpi_wait_all
  | wait (r : Nat) (sel : Sel)                     -- rank r: ncmpi_wait
  | fillRec (recno : Nat → Nat)                    -- ncmpi_fill_var_rec (valid variable on every rank)
  | beginIndep | endIndep | sync | syncNumrecs
  | redef                                          -- ncmpi_redef followed by ncmpi_enddef
  | reopen                                         -- ncmpi_close followed by ncmpi_open

/-- ncmpio_write_numrecs executed by root: the value of the header field afterwards -/
def writeNumrecs (root : Rank) (hdr new : Nat) : Nat :=
  if root.numrecs < new ∨ root.dirty = true then max root.numrecs new else hdr

/-- tail of every collective write once the maximum M is known on all ranks:
    `if (ncp->numrecs < M) { ncmpio_write_numrecs(ncp, M); ncp->numrecs = M; }` -/
def raiseAll (w : World) (M : Nat) : World :=
  { w with
    hdr := (match w.ranks with
            | [] => w.hdr
            | root :: _ => if root.numrecs < M then writeNumrecs root w.hdr M else w.hdr),
    ranks := w.ranks.map fun r => if r.numrecs < M then { r with numrecs := M } else r }

/-- ncmpio_sync_numrecs when the file is in independent mode -/
def syncCore (w : World) : World :=
  let M := maxOver 0 (w.ranks.map (·.numrecs))
  { w with
    hdr := (match w.ranks with
            | [] => w.hdr
            | root :: _ => writeNumrecs { root with dirty := true } w.hdr M),
    ranks := w.ranks.map fun r => { r with numrecs := M, dirty := false } }

def endIndepCore (w : World) : World :=
  if w.indep then { syncCore w with indep := false } else w

/-! ### blocking collective puts -/
def putContrib (f : Nat → PutIn) (r : Rank) : Nat :=
  match f r.id with
  | .valid e => e
  | _ => r.numrecs
def putEnd (f : Nat → PutIn) (r : Rank) : Option Nat :=
  match f r.id with
  | .valid e => some e
  | _ => none
def isPutArgErr (f : Nat → PutIn) (r : Rank) : Bool :=
  match f r.id with
  | .argErr => true
  | _ => false

def vardContrib (guard : Bool) (f : Nat → VardIn) (r : Rank) : Nat :=
  match f r.id with
  | .valid e => e
  | .noData e => if guard then r.numrecs else e
  | .argErr => r.numrecs
def vardEnd (f : Nat → VardIn) (r : Rank) : Option Nat :=
  match f r.id with
  | .valid e => some e
  | _ => none
def isVardArgErr (f : Nat → VardIn) (r : Rank) : Bool :=
  match f r.id with
  | .argErr => true
  | _ => false

/-- ghost bookkeeping after a collective write in which rank r completed a write ending at `ends r` -/
def recordWrites (w : World) (ends : Rank → Option Nat) : World :=
  { w with
    hi := maxOver w.hi (w.ranks.filterMap ends),
    ranks := w.ranks.map fun r => match ends r with
                                  | some e => { r with own := max r.own e }
                                  | none => r }

/-- common shape of put_varm / getput_vard in collective mode.  `fx` = the zero path has been repaired. -/
def collPut (fx : Bool) (w : World) (isErr : Rank → Bool) (contrib : Rank → Nat) (ends : Rank → Option Nat) : Option World :=
  if w.indep then some w                               -- NC_EINDEP on every rank
  else if w.ranks.all isErr then some w                -- every rank on the zero path: nobody waits for anybody
  else if !fx && w.ranks.any isErr then none           -- the others block in the numrecs Allreduce
  else
    let M := maxOver 0 (w.ranks.map contrib)
    let w1 := raiseAll w M
    some (recordWrites w1 ends)

/-! ### nonblocking requests -/
def selAll (pending : List Pend) : Sel → Bool
  | .all => true
  | .ids l => l.length == pending.length            -- extract_reqs: "this is the same as NC_PUT_REQ_ALL"
def isMarked (pending : List Pend) (s : Sel) (p : Pend) : Bool :=
  selAll pending s || (match s with
                       | .all => true
                       | .ids l => l.contains p.id)
/-- the lead requests marked NC_REQ_TO_FREE -/
def marked (pending : List Pend) (s : Sel) : List Pend := pending.filter (isMarked pending s)
/-- an id that is not pending: NC_EINVAL_REQUEST -/
def badSel (pending : List Pend) (s : Sel) : Bool :=
  !selAll pending s && (match s with
                        | .all => false
                        | .ids l => l.any fun i => !(pending.any fun p => p.id == i))
/-- req_commit: `newnumrecs = ncp->numrecs; for (i=0; i<num_w_lead_reqs; i++) …put_lead_list[i]…`
    (`scan`: the repaired loop bound ncp->numLeadPutReqs) -/
def litNew (scan : Bool) (r : Rank) (s : Sel) : Nat :=
  let k := if scan then r.pending.length else (marked r.pending s).length
  maxOver r.numrecs (((r.pending.take k).filter fun p => isMarked r.pending s p && p.isRec).map (·.maxRec))
/-- max_rec of the marked requests to record variables: what completing them writes -/
def markedRecs (r : Rank) (s : Sel) : List Nat :=
  ((marked r.pending s).filter (·.isRec)).map (·.maxRec)
def completeReqs (r : Rank) (s : Sel) : Rank :=
  { r with pending := r.pending.filter (fun p => !isMarked r.pending s p),
           own := maxOver r.own (markedRecs r s) }

def stepWaitAll (scan : Bool) (w : World) (sel : Nat → Sel) : Option World :=
  if w.indep then some w                               -- NC_EINDEP
  else if w.ranks.any (fun r => badSel r.pending (sel r.id)) then some w   -- do_io[2]: every rank returns
  else
    let M := maxOver 0 (w.ranks.map fun r => litNew scan r (sel r.id))
    let doWrite := w.ranks.any fun r => !(marked r.pending (sel r.id)).isEmpty
    let w1 := if doWrite then raiseAll w M else w
    some { w1 with
           hi := maxOver w1.hi (w.ranks.flatMap fun r => markedRecs r (sel r.id)),
           ranks := w1.ranks.map fun r => completeReqs r (sel r.id) }

def stepWait (scan : Bool) (w : World) (rk : Nat) (s : Sel) : Option World :=
  if !w.indep then some w                              -- NC_ENOTINDEP
  else
    some { w with
           hi := maxOver w.hi ((w.ranks.filter fun r => r.id == rk && !badSel r.pending s).flatMap fun r => markedRecs r s),
           ranks := w.ranks.map fun r =>
             if r.id == rk && !badSel r.pending s then
               -- wait_getput, NC_REQ_INDEP: `if (ncp->numrecs < newnumrecs) { ncp->numrecs = newnumrecs; set_NC_ndirty }`
               (if !(marked r.pending s).isEmpty && decide (r.numrecs < litNew scan r s) then
                  { completeReqs r s with numrecs := litNew scan r s, dirty := true }
                else completeReqs r s)
             else r }

/-! ### one API call on all ranks -/
def step (fx : Fix) (w : World) : Op → Option World
  | .putAll f => collPut fx.zeroPath w (isPutArgErr f) (putContrib f) (putEnd f)
  | .vardAll f => collPut fx.zeroPath w (isVardArgErr f) (vardContrib fx.vardGuard f) (vardEnd f)
  | .putIndep rk e =>
      if !w.indep then some w                          -- NC_ENOTINDEP
      else some { w with
                  hi := maxOver w.hi ((w.ranks.filter fun r => r.id == rk).map fun _ => e),
                  ranks := w.ranks.map fun r =>
                    if r.id == rk then
                      (if r.numrecs < e then { r with numrecs := e, dirty := true, own := max r.own e }
                       else { r with own := max r.own e })
                    else r }
  | .iput rk id isRec e vb ro =>
      some { w with ranks := w.ranks.map fun r =>
               if r.id == rk then
                 { r with pending := insertPend r.pending { id := id, isRec := isRec, maxRec := if isRec then e else 0,
                                                            varBegin := vb, reqOff := ro } }
               else r }
  | .waitAll sel => stepWaitAll fx.waitScan w sel
  | .wait rk s => stepWait fx.waitScan w rk s
  | .fillRec rn =>
      -- before the repair the dispatcher dropped its NC_EINDEP when safe mode is off, so the mode was not looked at
      if fx.fillMode && w.indep then some w
      else
        let M := maxOver 0 (w.ranks.map fun r => rn r.id + 1)
        some (recordWrites (raiseAll w M) (fun r => some (rn r.id + 1)))
  | .beginIndep => some { w with indep := true }
  | .endIndep => some (endIndepCore w)
  | .sync => some (if w.indep then syncCore w else w)
  | .syncNumrecs => some (if w.indep then syncCore w else w)
  | .redef =>
      let w1 := endIndepCore w
      some { w1 with
             hdr := (match w1.ranks with
                     | [] => w1.hdr
                     | root :: _ => root.numrecs),                 -- write_NC: root's header object
             ranks := w1.ranks.map fun r => { r with dirty := false } }
  | .reopen =>
      let w1 := endIndepCore w
      some { w1 with ranks := w1.ranks.map fun r => { r with numrecs := w1.hdr, dirty := false, pending := [] } }

/-- I/O configuration under which a file is used.  With intra-node aggregation (hint nc_num_aggrs_per_node) a blocking
    collective put ends in ncmpio_intra_node_aggregation() inside put_varm (same numrecs tail), and wait_all ends in
    ncmpio_intra_node_aggregation_nreqs(), whose tail `if (newnumrecs > ncp->numrecs) { ncmpio_write_numrecs(); if
    (ncp->numrecs < newnumrecs) ncp->numrecs = newnumrecs; }` is statement for statement the tail of wait_getput:
    the transcription is the same `step`, the configuration is not an input of it. -/
structure IoConfig where
  aggrsPerNode : Nat := 0      -- hint nc_num_aggrs_per_node
  hcoll : Bool := false        -- hint romio_no_indep_rw (header written collectively)
  format : Nat := 1            -- CDF-1 / 2 / 5 (width of the numrecs field)
  deriving DecidableEq, Repr
def stepUnder (_c : IoConfig) (fx : Fix) (w : World) (op : Op) : Option World := step fx w op

def run (fx : Fix) : World → List Op → Option World
  | w, [] => some w
  | w, op :: rest =>
    match step fx w op with
    | none => none
    | some w' => run fx w' rest

/-- a file just opened/created by `n` ranks with `h` records -/
def initWorld (n h : Nat) : World :=
  { ranks := (List.range n).map fun i => { id := i, numrecs := h }, hdr := h, hi := h }

end PnVerif.NumRecs
