/-
  C06 — executable model of the data-moving part of `ncmpio__enddef` after a redefinition
  (src/drivers/ncmpio/ncmpio_enddef.c) and of `ncmpio_redef` / `ncmpio_abort`
  (src/drivers/ncmpio/ncmpio_file_misc.c, ncmpio_close.c).

  Hand transcription of the C control flow; tied to the source by the correspondence harness
  (harness/c06_unit.c calls the real `move_file_block`, `move_fixed_vars`, `move_record_vars`
  with a lowered MOVE_UNIT on 1..8 ranks; checks/c06.py diffs the resulting files byte for byte
  against `Driver/C06.lean`, which runs the definitions below).

  Conventions: a file is a finite byte list (`File`); writing past the end zero-extends
  (`writeAt`), writing 0 bytes does nothing.  What `MPI_File_read_at_all` + `MPI_Get_count` report
  for a read that crosses the end of the file is a PARAMETER (`ReadMode`): either the short count
  (what the comments in `move_file_block` expect) or the full count with unspecified bytes past the
  end (what OpenMPI 4.1.4/OMPIO collective reads do: measured, the bytes are 0 there).  All
  theorems hold for every `ReadMode`.  `rd f i` is the observable byte at offset i (0 beyond the end).  MPI-IO calls are assumed to
  succeed (error paths belong to C11).  Offsets are `Nat` (overflow belongs to C18).
-/
namespace PnVerif.Redef

abbrev File := List UInt8

/-- observable byte at offset `i` (sparse-file semantics: 0 beyond the end) -/
def rd (f : File) (i : Nat) : UInt8 := f.getD i 0

/-- behaviour of `MPI_File_read_at_all` + `MPI_Get_count` at the end of the file -/
inductive ReadMode where
  /-- the count reported is the number of bytes that exist -/
  | short
  /-- the full count is reported; the byte for absolute offset `p` past the end is `junk p` -/
  | full (junk : Nat → UInt8)

/-- `MPI_File_read_at_all(fh, off, buf, cnt, MPI_BYTE)`: the `get_size` bytes the caller then owns -/
def readAt (m : ReadMode) (f : File) (off cnt : Nat) : List UInt8 :=
  match m with
  | .short => (f.drop off).take cnt
  | .full junk => (List.range cnt).map fun k => if off + k < f.length then rd f (off + k) else junk (off + k)

/-- `MPI_File_write_at(fh, off, d, |d|, MPI_BYTE)`; a zero-length write does not extend the file -/
def writeAt (f : File) (off : Nat) (d : List UInt8) : File :=
  if d.isEmpty then f
  else
    let g := f ++ List.replicate (off - f.length) 0
    g.take off ++ d ++ g.drop (off + d.length)

/-! ### move_file_block -/

/-- `chunk_size = nbytes / nprocs; if (nbytes % nprocs) chunk_size++; if (chunk_size > MOVE_UNIT) chunk_size = MOVE_UNIT;` -/
def chunkSize (nbytes nprocs unit : Nat) : Nat :=
  let c := nbytes / nprocs
  let c := if nbytes % nprocs ≠ 0 then c + 1 else c
  if c > unit then unit else c

/-- `bufcount` of process `rank` in the loop iteration entered with `nbytes` bytes left -/
def bufcount (nprocs chunk nbytes rank : Nat) : Nat :=
  if nbytes < nprocs * chunk then
    -- the last group of chunks
    let rem := nbytes / chunk
    if rank > rem then 0
    else if rank = rem then nbytes % chunk
    else chunk
  else chunk

/-- value of `nbytes` after the update at the top of the loop body -/
def nextNbytes (nprocs chunk nbytes : Nat) : Nat :=
  if nbytes < nprocs * chunk then 0 else nbytes - chunk * nprocs

/-- One loop iteration on all ranks: EVERY rank reads its chunk of the file as it is at the start of
    the iteration (`MPI_File_read_at_all` @ from+nbytes+rank*chunk_size), then the `MPI_Allreduce`
    separates the reads from the writes, then every rank writes what it actually read
    (`get_size`, not `bufcount`) @ to+nbytes+rank*chunk_size.  `nbOld` = nbytes on loop entry,
    `nb` = nbytes after the update. -/
def roundFile (m : ReadMode) (nprocs chunk : Nat) (f : File) (dst src nbOld nb : Nat) : File :=
  let bufs := (List.range nprocs).map fun r =>
    (r, readAt m f (src + nb + r * chunk) (bufcount nprocs chunk nbOld r))
  bufs.foldl (fun g rb => writeAt g (dst + nb + rb.1 * chunk) rb.2) f

/-- `while (nbytes > 0) { … }`.  `chunk = 0` or `nprocs = 0` cannot occur when `nbytes > 0`
    (`chunkSize_pos`); the guard only makes the definition total. -/
def moveLoop (m : ReadMode) (nprocs chunk dst src : Nat) (f : File) (nbytes : Nat) : File :=
  if _h : nbytes = 0 ∨ chunk = 0 ∨ nprocs = 0 then f
  else
    let nb := nextNbytes nprocs chunk nbytes
    moveLoop m nprocs chunk dst src (roundFile m nprocs chunk f dst src nbytes nb) nb
termination_by nbytes
decreasing_by
  have h1 : nbytes ≠ 0 := fun e => _h (Or.inl e)
  have h2 : chunk ≠ 0 := fun e => _h (Or.inr (Or.inl e))
  have h3 : nprocs ≠ 0 := fun e => _h (Or.inr (Or.inr e))
  have : 0 < chunk * nprocs := Nat.mul_pos (Nat.pos_of_ne_zero h2) (Nat.pos_of_ne_zero h3)
  show nextNbytes nprocs chunk nbytes < nbytes
  unfold nextNbytes
  split <;> omega

/-- `move_file_block(ncp, to, from, nbytes)` with `MOVE_UNIT = unit` on `nprocs` processes -/
def moveBlock (m : ReadMode) (nprocs unit : Nat) (f : File) (dst src nbytes : Nat) : File :=
  moveLoop m nprocs (chunkSize nbytes nprocs unit) dst src f nbytes

/-! ### move_fixed_vars / move_record_vars / the decision in ncmpio__enddef -/

/-- what `move_fixed_vars` / `NC_begins` look at of one variable defined before the redefinition:
    `old->vars.value[i]->begin`, `ncp->vars.value[i]->begin`, `->len`, `IS_RECVAR` -/
structure MVar where
  oldBegin : Nat
  newBegin : Nat
  len : Nat
  isRec : Bool
deriving Repr, DecidableEq

/-- body of the loop of `move_fixed_vars` for variable `v` -/
def moveFixedStep (m : ReadMode) (nprocs unit : Nat) (v : MVar) (f : File) : File :=
  if v.isRec then f
  else if v.newBegin > v.oldBegin then moveBlock m nprocs unit f v.newBegin v.oldBegin v.len
  else f

/-- `for (i=old->vars.ndefined-1; i>=0; i--)`: the LAST variable is moved first -/
def moveFixed (m : ReadMode) (nprocs unit : Nat) (f : File) : List MVar → File
  | [] => f
  | v :: vs => moveFixedStep m nprocs unit v (moveFixed m nprocs unit f vs)

/-- `for (recno = nrecs-1; recno >= 0; recno--) move_file_block(ncp_off+recno*ncp_recsize, old_off+recno*old_recsize, old_recsize)` -/
def moveRecsLoop (m : ReadMode) (nprocs unit newOff oldOff newRs oldRs : Nat) (f : File) : Nat → File
  | 0 => f
  | r + 1 => moveRecsLoop m nprocs unit newOff oldOff newRs oldRs
               (moveBlock m nprocs unit f (newOff + r * newRs) (oldOff + r * oldRs) oldRs) r

/-- `move_record_vars` -/
def moveRecords (m : ReadMode) (nprocs unit : Nat) (f : File) (newOff oldOff newRs oldRs nrecs : Nat) : File :=
  if newRs = oldRs then
    if newRs = 0 then f
    else moveBlock m nprocs unit f newOff oldOff (newRs * nrecs)
  else moveRecsLoop m nprocs unit newOff oldOff newRs oldRs f nrecs

/-- the layout numbers of one header object that the moving code reads -/
structure Lay where
  beginVar : Nat
  beginRec : Nat
  recsize : Nat
deriving Repr, DecidableEq

/-- the block `if (ncp->old != NULL) { if (ncp->vars.ndefined > 0) { … } }` of `ncmpio__enddef`:
    `nvars` = ncp->vars.ndefined, `numrecs` = ncp->numrecs, `vars` = the variables of `old` -/
def enddefMove (m : ReadMode) (nprocs unit : Nat) (f : File) (old new : Lay) (nvars numrecs : Nat) (vars : List MVar) : File :=
  if nvars > 0 then
    if new.beginVar > old.beginVar then
      let f1 := moveRecords m nprocs unit f new.beginRec old.beginRec new.recsize old.recsize numrecs
      moveFixed m nprocs unit f1 vars
    else if new.beginRec > old.beginRec ∨ new.recsize > old.recsize then
      moveRecords m nprocs unit f new.beginRec old.beginRec new.recsize old.recsize numrecs
    else f
  else f

/-! ### ncmpio_redef / ncmpio_abort -/

/-- the flags and fields of `NC` that `ncmpio_redef`, `ncmpio_end_indep_data` and `ncmpio_abort` test -/
structure NCState where
  isNew : Bool        -- NC_MODE_CREATE
  indef : Bool        -- NC_MODE_DEF
  indep : Bool        -- NC_MODE_INDEP
  readonly : Bool     -- NC_MODE_RDONLY
  hasOld : Bool       -- ncp->old != NULL
  numRecVars : Nat    -- ncp->vars.num_rec_vars
deriving Repr, DecidableEq

/-- a one-file file system: `none` = the path does not exist -/
abbrev Disk := Option File

/-- `ncmpio_end_indep_data`; `syncNumrecs` stands for `ncmpio_sync_numrecs` (Allreduce of numrecs and
    rewrite of the numrecs field of the header: the only write this function can make) -/
def endIndep (syncNumrecs : File → File) (s : NCState) (d : Disk) : NCState × Disk :=
  if s.indef then (s, d)
  else if !s.indep then (s, d)
  else
    let d' := if !s.readonly && s.numRecVars > 0 then d.map syncNumrecs else d
    ({ s with indep := false }, d')

/-- `ncmpio_redef` -/
def redef (syncNumrecs : File → File) (s : NCState) (d : Disk) : NCState × Disk :=
  let (s1, d1) := if s.indep then endIndep syncNumrecs s d else (s, d)
  ({ s1 with hasOld := true, indef := true }, d1)

/-- `ncmpio_abort` (+ `ncmpio_close_files(ncp, doUnlink)`): returns the disk afterwards -/
def abort (syncNumrecs : File → File) (s : NCState) (d : Disk) : Disk :=
  let doUnlink := s.isNew
  let s1 := if s.hasOld then { s with hasOld := false, indef := false } else s
  let (_, d1) :=
    if !doUnlink then
      if !s1.readonly && s1.indep then endIndep syncNumrecs s1 d else (s1, d)
    else (s1, d)
  if doUnlink then none else d1


/-! ### metadata calls and the file: define mode writes nothing -/

/-- the metadata-changing calls (`ncmpi_def_dim`, `ncmpi_def_var`, `ncmpi_put_att_*`, `ncmpi_copy_att`,
    `ncmpi_del_att`, `ncmpi_rename_att/dim/var`, `ncmpi_set_fill`, `ncmpi_def_var_fill`).  `copyAtt srcIndef` carries
    the mode of the SOURCE file, which the C has at hand (`ncp_in`) but must not use for the decision. -/
inductive MetaOp where
  | defDim | defVar | putAtt | delAtt | renameAtt | renameDim | renameVar | setFill | defVarFill
  | copyAtt (srcIndef : Bool)
deriving Repr, DecidableEq

/-- calls the library also accepts in data mode (when the new value fits); there they rewrite the header at once -/
def MetaOp.inDataMode : MetaOp → Bool
  | .putAtt | .renameAtt | .renameDim | .renameVar | .copyAtt _ => true
  | _ => false

/-- effect on the disk of one metadata call on a file whose state is `s` (for `copyAtt`: the OUTPUT file):
    `if (!NC_indef(ncp_out)) { … write the entire header … }` — in define mode only the in-memory header changes;
    `writeHdr` stands for `ncmpio_write_header` -/
def metaOpDisk (writeHdr : File → File) (s : NCState) (d : Disk) (op : MetaOp) : Disk :=
  if s.indef then d
  else if op.inDataMode then d.map writeHdr
  else d   -- rejected with NC_ENOTINDEFINE

end PnVerif.Redef
