/-
  C09: the getn/putn loops of ncx.c around the per-element primitives.
  Two loop shapes exist in the generated C (the translator classifies every loop and fails
  closed on anything else, see Gen.Ncx.loopShapes):

    firstErr : for (...) { lstatus = prim(xp, tp); if (status == NC_NOERR) status = lstatus; }
    inline   : while (...) { if (bad) { fill; status = NC_ERANGE; continue; } *xp++ = (T)*tp++; }

  Both are modelled as left folds carrying the C `status` variable; the theorems say that
  (1) every element is converted independently of its neighbours and of earlier errors,
  (2) the returned status is the first non-zero element status.
-/
namespace PnVerif.ConvLoop

/-- the C loop, shape `firstErr` -/
def loopFirst {α β : Type} (elem : α → β × Int) (xs : List α) : List β × Int :=
  xs.foldl (fun (acc : List β × Int) x =>
    let r := elem x
    (acc.1 ++ [r.1], if acc.2 = 0 then r.2 else acc.2)) ([], 0)

/-- the C loop, shape `inline`: status is *assigned* whenever an element fails -/
def loopLast {α β : Type} (elem : α → β × Int) (xs : List α) : List β × Int :=
  xs.foldl (fun (acc : List β × Int) x =>
    let r := elem x
    (acc.1 ++ [r.1], if r.2 ≠ 0 then r.2 else acc.2)) ([], 0)

/-- specification: first non-zero status of a list of statuses -/
def firstErr : List Int → Int
  | [] => 0
  | e :: es => if e ≠ 0 then e else firstErr es

private theorem loopFirst_aux {α β : Type} (elem : α → β × Int) (xs : List α) (acc : List β) (st : Int) :
    xs.foldl (fun (a : List β × Int) x =>
      let r := elem x
      (a.1 ++ [r.1], if a.2 = 0 then r.2 else a.2)) (acc, st)
    = (acc ++ xs.map (fun x => (elem x).1),
       if st = 0 then firstErr (xs.map (fun x => (elem x).2)) else st) := by
  induction xs generalizing acc st with
  | nil => simp [firstErr]
  | cons x xs ih =>
    simp only [List.foldl_cons, List.map_cons, firstErr]
    rw [ih]
    by_cases h : st = 0
    · by_cases h2 : (elem x).2 = 0 <;> simp [h, h2]
    · simp [h]

/-- every element converted independently; status = first error -/
theorem loopFirst_spec {α β : Type} (elem : α → β × Int) (xs : List α) :
    loopFirst elem xs = (xs.map (fun x => (elem x).1), firstErr (xs.map (fun x => (elem x).2))) := by
  unfold loopFirst
  rw [loopFirst_aux]
  simp

private theorem loopLast_aux {α β : Type} (elem : α → β × Int) (c : Int) (xs : List α) (acc : List β) (st : Int)
    (hst : st = 0 ∨ st = c) (h : ∀ x ∈ xs, (elem x).2 = 0 ∨ (elem x).2 = c) :
    xs.foldl (fun (a : List β × Int) x =>
      let r := elem x
      (a.1 ++ [r.1], if r.2 ≠ 0 then r.2 else a.2)) (acc, st)
    = (acc ++ xs.map (fun x => (elem x).1),
       if st = 0 then firstErr (xs.map (fun x => (elem x).2)) else st) := by
  induction xs generalizing acc st with
  | nil => simp [firstErr]
  | cons x xs ih =>
    simp only [List.foldl_cons, List.map_cons, firstErr]
    have hx := h x (List.mem_cons_self)
    have hrest : ∀ y ∈ xs, (elem y).2 = 0 ∨ (elem y).2 = c := fun y hy => h y (List.mem_cons_of_mem _ hy)
    by_cases h2 : (elem x).2 = 0
    · simp only [h2, ne_eq, not_true_eq_false, ↓reduceIte]
      rw [ih _ _ hst hrest]
      simp
    · have hc : (elem x).2 = c := by cases hx with | inl h0 => exact absurd h0 h2 | inr hc => exact hc
      simp only [ne_eq, h2, not_false_eq_true, ↓reduceIte]
      rw [ih _ _ (Or.inr hc) hrest]
      cases hst with
      | inl h0 => simp [h0, h2]
      | inr hcc =>
        have hc0 : c ≠ 0 := fun h0 => h2 (hc.trans h0)
        simp [hcc, hc, hc0]

/-- when all element errors are the same code (they are: NC_ERANGE), "assign on error"
    returns the same status as "keep the first error" -/
theorem loopLast_spec {α β : Type} (elem : α → β × Int) (c : Int) (xs : List α)
    (h : ∀ x ∈ xs, (elem x).2 = 0 ∨ (elem x).2 = c) :
    loopLast elem xs = (xs.map (fun x => (elem x).1), firstErr (xs.map (fun x => (elem x).2))) := by
  unfold loopLast
  rw [loopLast_aux elem c xs [] 0 (Or.inl rfl) h]
  simp

/-- non-vacuity: a failing element in the middle does not disturb its neighbours -/
example : loopFirst (fun (x : Int) => if x > 127 then ((-127 : Int), (-60 : Int)) else (x, 0)) [1, 300, 2]
    = ([1, -127, 2], -60) := by decide

end PnVerif.ConvLoop
