/-
  C12: the flush of the burst-buffer log (ncbbio_log_flush_core, ncbbio_log_flush.c).

  A log is a list of entries `(valid, dataSize)` (cancelled entries stay in the log with
  valid = false).  The C code makes two passes with the SAME arithmetic:
    * a counting pass that computes `nrounds` (needed so that every process takes part in
      `max nrounds` collective waits),
    * the replay pass that fills the data buffer with consecutive valid entries until the next one
      does not fit, posts them as nonblocking puts and waits (one round).
  `bufsize` is max(flush buffer size, largest entry), so the first entry of a round always fits.
  Core Lean only.
-/
namespace PnVerif.BBLog

abbrev Entry := Bool × Nat      -- (valid, size of the entry's data in bytes)

/-- counting pass: number of times the buffer "overflows" -/
def countOverflows (buf : Nat) : List Entry → Nat → Nat
  | [], _ => 0
  | (valid, sz) :: rest, used =>
    if valid then
      if sz + used > buf then 1 + countOverflows buf rest sz
      else countOverflows buf rest (used + sz)
    else countOverflows buf rest used

/-- `nrounds` as computed by the first loop -/
def nrounds (buf : Nat) (es : List Entry) : Nat := countOverflows buf es 0 + 1

/-- inner `for (ub = lb; ...)` loop of the replay pass: the entries of one round and what is left -/
def takeRound (buf : Nat) : List Entry → Nat → List Entry × List Entry
  | [], _ => ([], [])
  | (valid, sz) :: rest, used =>
    if valid then
      if sz + used > buf then ([], (valid, sz) :: rest)            -- break: buffer full
      else
        let r := takeRound buf rest (used + sz)
        ((valid, sz) :: r.1, r.2)
    else
      let r := takeRound buf rest used                              -- cancelled entry: skipped
      ((valid, sz) :: r.1, r.2)

/-- outer `for (lb = 0; lb < nused;)` loop.  `fuel` bounds the iterations (the C loop has no bound:
    it spins forever if an entry is larger than the buffer — excluded by `bufsize ≥ maxentrysize`). -/
def execRounds (buf : Nat) : Nat → List Entry → List (List Entry)
  | 0, _ => []
  | _ + 1, [] => []
  | fuel + 1, es =>
    let r := takeRound buf es 0
    r.1 :: execRounds buf fuel r.2

def validSizes (es : List Entry) : List Nat := (es.filter (·.1)).map (·.2)
def sum : List Nat → Nat
  | [] => 0
  | x :: xs => x + sum xs

end PnVerif.BBLog
