/-
  C01 / C15 / C18 : how a request (start, count, stride) on a variable becomes file offsets.

  * `elemOff` is the SPECIFICATION of where element `idx` of a variable lives (format document:
    fixed variables row-major from `begin`; record variables: record r of the variable at
    `begin + r * recsize`, row-major inside the record).
  * `firstOffset`, `strideFlatten`, `varaRecOffsets` are literal transcriptions of
    ncmpio_first_offset (ncmpio_util.c), stride_flatten and the hvector-of-records construction of
    filetype_create_vara (ncmpio_filetype.c).
  * `offsetsBU` is the bottom-up ("innermost dimension first") construction both C functions follow.

  Everything is `Nat` (unbounded); C18's `no_overflow` theorem is what justifies that.  Core Lean only.
-/
namespace PnVerif.Access

def prod : List Nat → Nat
  | [] => 1
  | x :: xs => x * prod xs

/-- row-major linear index of `idx` inside an array of shape `shape` -/
def rowMajor : List Nat → List Nat → Nat
  | [], _ => 0
  | _, [] => 0
  | _ :: ns, i :: is => i * prod ns + rowMajor ns is

/-- layout facts of one variable (what NC_begins / the header provide) -/
structure VarLay where
  begin : Nat
  xsz : Nat
  shape : List Nat        -- full shape; for a record variable shape[0] is not used
  isRec : Bool
  recsize : Nat           -- size of one whole record (all record variables), bytes
  deriving Repr

/-- SPEC: byte offset of element `idx` -/
def elemOff (v : VarLay) (idx : List Nat) : Nat :=
  if v.isRec then
    v.begin + idx.headD 0 * v.recsize + rowMajor (v.shape.drop 1) (idx.drop 1) * v.xsz
  else
    v.begin + rowMajor v.shape idx * v.xsz

/-- bytes spanned by one index step of each dimension (outermost first):
    `xsz * Π_{j>d} shape[j]`, except that dimension 0 of a record variable steps by `recsize` -/
def unitsFixed (xsz : Nat) : List Nat → List Nat
  | [] => []
  | _ :: ns => xsz * prod ns :: unitsFixed xsz ns

def units (v : VarLay) : List Nat :=
  if v.isRec then
    match v.shape with
    | [] => []
    | _ :: ns => v.recsize :: unitsFixed v.xsz ns
  else unitsFixed v.xsz v.shape

def dot : List Nat → List Nat → Nat
  | [], _ => 0
  | _, [] => 0
  | u :: us, i :: is => i * u + dot us is

/-- all index tuples of a (start, count, stride) request in row-major order (outermost first) -/
def enumIdx : List Nat → List Nat → List Nat → List (List Nat)
  | [], _, _ => [[]]
  | _, [], _ => [[]]
  | _, _, [] => [[]]
  | s :: ss, c :: cs, k :: ks =>
    (List.range c).flatMap (fun i => (enumIdx ss cs ks).map (fun r => (s + i * k) :: r))

/-- one dimension of a request together with its byte unit -/
structure Dim where
  s : Nat
  c : Nat
  k : Nat
  u : Nat
  deriving Repr

/-- one iteration of the `while (ndims > 0)` loop of stride_flatten / one hvector level:
    replicate the displacements built so far `c` times, `k*u` bytes apart, starting at `s*u` -/
def extend (disps : List Nat) (d : Dim) : List Nat :=
  (List.range d.c).flatMap (fun i => disps.map (fun x => x + d.s * d.u + i * (d.k * d.u)))

/-- bottom-up construction: `ds` lists the dimensions INNERMOST FIRST -/
def offsetsBU (ds : List Dim) : List Nat := ds.foldl extend [0]

def zipDims : List Nat → List Nat → List Nat → List Nat → List Dim
  | s :: ss, c :: cs, k :: ks, u :: us => ⟨s, c, k, u⟩ :: zipDims ss cs ks us
  | _, _, _, _ => []

/-! ### transcription of stride_flatten (after the 1-D record-variable repair) -/

/-- the `while (ndims > 0)` loop.  `hi` lists the remaining (higher) dimensions innermost first, each
    with `dimlen[d+1]`, the factor the C code multiplies into `array_len` before handling dimension d,
    and a flag telling whether d is dimension 0. -/
def sfLoop (isRec : Bool) (dimlen0 : Nat) : List (Nat × Nat × Nat × Nat × Bool) → Nat → List Nat → List Nat
  | [], _, disps => disps
  | (s, c, k, dl, isDim0) :: rest, arrayLen, disps =>
    let arrayLen := arrayLen * dl                       -- array_len *= dimlen[ndims]
    let u := if isDim0 ∧ isRec then dimlen0 else arrayLen
    sfLoop isRec dimlen0 rest arrayLen (extend disps ⟨s, c, k, u⟩)

/-- zip the request with the dimension lengths, innermost first; entry for dimension d carries
    dimlen[d+1] -/
def sfHigher : List Nat → List Nat → List Nat → List Nat → List (Nat × Nat × Nat × Nat × Bool)
  | s :: ss, c :: cs, k :: ks, _ :: dl1 :: dls =>
    sfHigher ss cs ks (dl1 :: dls) ++ [(s, c, k, dl1, false)]
  | _, _, _, _ => []

/-- mark the last entry (dimension 0) -/
def markDim0 : List (Nat × Nat × Nat × Nat × Bool) → List (Nat × Nat × Nat × Nat × Bool)
  | [] => []
  | [(s, c, k, dl, _)] => [(s, c, k, dl, true)]
  | x :: xs => x :: markDim0 xs

/-- the C function's outputs: block displacements (relative to `begin`) and the common block length
    in bytes.  Arguments outermost first, as in C. -/
def strideFlatten (v : VarLay) (start count stride : List Nat) : List Nat × Nat :=
  let n := v.shape.length
  let el := v.xsz
  -- dimlen[]: shape with dimlen[0] := recsize for record variables
  let dimlen := if v.isRec then v.recsize :: v.shape.drop 1 else v.shape
  let sL := start.getLastD 0          -- start[ndims-1]
  let cL := count.getLastD 0
  let kL := stride.getLastD 1
  let nstride := if kL = 1 then 1 else cL
  let segLen := (if kL = 1 then cL else 1) * el
  -- lowest dimension
  let base : List Nat :=
    if n = 1 ∧ v.isRec then (List.range nstride).map (fun j => 0 + sL * dimlen.headD 0 + j * (kL * dimlen.headD 0))
    else (List.range nstride).map (fun j => 0 + sL * el + j * (kL * el))
  (sfLoop v.isRec (dimlen.headD 0) (markDim0 (sfHigher start count stride dimlen)) el base, segLen)

/-- element offsets described by (displacements, block length) -/
def expandBlocks (el : Nat) (disps : List Nat) (segLen : Nat) : List Nat :=
  disps.flatMap (fun d => (List.range (segLen / el)).map (fun j => d + j * el))

/-! ### transcription of ncmpio_first_offset -/

/-- dsizes[i] = Π_{j ≥ i} shape[j] (for record variables shape[0] is excluded by the callers) -/
def dsizes (shape : List Nat) (i : Nat) : Nat := prod (shape.drop i)

/-- Σ_{j<k} f j  (the `for (i=1; i<ndims-1; i++) *offset += …` loop) -/
def sumRange : Nat → (Nat → Nat) → Nat
  | 0, _ => 0
  | k + 1, f => f 0 + sumRange k (fun j => f (j + 1))

def firstOffset (v : VarLay) (start : List Nat) : Nat :=
  let n := v.shape.length
  if n = 0 then v.begin else
  -- for (i=1; i<ndims-1; i++) *offset += start[i] * varp->dsizes[i+1];
  let mid := sumRange (n - 2) (fun j => start.getD (j + 1) 0 * dsizes v.shape (j + 2))
  if v.isRec then
    let o := (if n > 1 then start.getD (n - 1) 0 else 0) + mid
    o * v.xsz + start.getD 0 0 * v.recsize + v.begin
  else
    let o := (if n > 1 then start.getD 0 0 * dsizes v.shape 1 else 0) + mid + start.getD (n - 1) 0
    o * v.xsz + v.begin

end PnVerif.Access

namespace PnVerif.Access

/-! ### transcription of is_request_contiguous (ncmpio_filetype.c) -/

/-- the scan `for (i=ndims-1; i>most_sig_dim; i--)`: `dims` lists (shape, count) from the innermost
    dimension outwards and ENDS with the most significant dimension considered (which is never tested
    for being partial).  At the first partial dimension all outer counts must be ≤ 1. -/
def contigScan : List (Nat × Nat) → Bool
  | [] => true
  | [_] => true
  | (n, c) :: outer => if c < n then outer.all (fun d => d.2 ≤ 1) else contigScan outer

/-- is_request_contiguous(isRecVar, numRecVars, ndims, shape, start, count); lists outermost first -/
def isReqContig (isRec : Bool) (numRecVars : Nat) (shape count : List Nat) : Bool :=
  if shape.length = 0 then true else
  if count.any (· = 0) then true else                      -- zero-length request
  if isRec ∧ numRecVars > 1 then
    if count.headD 0 > 1 then false
    else contigScan ((shape.zip count).drop 1).reverse      -- most_sig_dim = 1
  else contigScan (shape.zip count).reverse                 -- most_sig_dim = 0

end PnVerif.Access
