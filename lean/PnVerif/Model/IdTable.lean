/-
  C17 — the file-id table of the dispatcher, src/dispatchers/file.c:

      static PNC *pnc_filelist[NC_MAX_NFILES];   ↦  Tab.slots : List (Option α)   (length = NC_MAX_NFILES)
      static int  pnc_numfiles;                  ↦  Tab.num   : Int

  `new_id_PNCList`, `del_from_PNCList`, `PNC_check_id` and the way ncmpi_create / ncmpi_open /
  ncmpi_close / ncmpi_abort / every other API call use them, transcribed literally.  `α` is the
  per-file object (PNC + driver object); API calls other than create/close are arbitrary functions
  `α → α × Int` on it.  Core Lean only.

  `PNC_check_id` as it is in the source does NOT test the slot for NULL; the one-line repair
  (`|| pnc_filelist[ncid] == NULL` in its condition) is the variant `nullCheck = true`.  Both
  variants are modelled; the check finds out by execution which one the library follows.
-/
namespace PnVerif.IdTable

def NC_NOERR : Int := 0
def NC_EBADID : Int := -33
def NC_ENFILE : Int := -34
def NC_EPENDING : Int := -236

structure Tab (α : Type) where
  slots : List (Option α)
  num : Int

/-- zero-initialised statics -/
def init (α : Type) (N : Nat) : Tab α := ⟨List.replicate N none, 0⟩

/-- NC_MAX_NFILES -/
def Tab.cap {α : Type} (t : Tab α) : Nat := t.slots.length

/-- `for (i=0; i<NC_MAX_NFILES; i++) if (pnc_filelist[i] == NULL)`: the first unused element -/
def firstFree {α : Type} : List (Option α) → Option Nat
  | [] => none
  | none :: _ => some 0
  | some _ :: r => (firstFree r).map (· + 1)

/-- new_id_PNCList: (table, err, *new_id) -/
def newId {α : Type} (t : Tab α) (p : α) : Tab α × Int × Int :=
  if t.num = t.cap then (t, NC_ENFILE, -1)
  else match firstFree t.slots with
    | some i => (⟨t.slots.set i (some p), t.num + 1⟩, NC_NOERR, i)
    | none => (t, NC_NOERR, -1)     -- loop falls through: *new_id stays -1, err stays NC_NOERR

/-- del_from_PNCList -/
def del {α : Type} (t : Tab α) (id : Nat) : Tab α := ⟨t.slots.set id none, t.num - 1⟩

/-- result of PNC_check_id: NC_EBADID | NC_NOERR with a valid object | NC_NOERR with *pncp == NULL -/
inductive Chk (α : Type) where
  | badid : Chk α
  | ok : α → Chk α
  | null : Chk α

/-- PNC_check_id.  nullCheck = false: the code as it is; true: with the repair. -/
def checkId {α : Type} (nullCheck : Bool) (t : Tab α) (ncid : Int) : Chk α :=
  if t.num = 0 ∨ ncid < 0 ∨ ncid ≥ t.cap then .badid
  else match t.slots[ncid.toNat]? with
    | some (some p) => .ok p
    | _ => if nullCheck then .badid else .null

/-- what the caller observes -/
inductive Outcome where
  | ret : Int → Outcome      -- the call returned this error code
  | crash : Outcome          -- NULL dereference (`pncp->driver`, `pncp->flag`, ...)
deriving DecidableEq, Repr

inductive Op (α : Type) where
  /-- ncmpi_create / ncmpi_open: the object the driver would build and the driver's error code
      (`fatal` = the dispatcher gives the id back: every error except the non-fatal
      NC_EMULTIDEFINE_CMODE/OMODE, NC_ENULLPAD) -/
  | create : α → Int → Op α
  /-- ncmpi_close / ncmpi_abort: error code computed by the driver from the object -/
  | close : Int → (α → Int) → Op α
  /-- any other API call -/
  | call : Int → (α → α × Int) → Op α

/-- one API call: (new table, outcome, id handed out or -1) -/
def step {α : Type} (nullCheck : Bool) (t : Tab α) : Op α → Tab α × Outcome × Int
  | .create p derr =>
    match newId t p with
    | (t1, e, id) =>
      if e ≠ NC_NOERR then (t, .ret e, -1)          -- `if (err != NC_NOERR) return err;`
      else if derr ≠ NC_NOERR then (del t1 id.toNat, .ret derr, -1)   -- del_from_PNCList(*ncidp); *ncidp = -1
      else (t1, .ret NC_NOERR, id)
  | .close ncid f =>
    match checkId nullCheck t ncid with
    | .badid => (t, .ret NC_EBADID, -1)
    | .null => (t, .crash, -1)
    | .ok p => (del t ncid.toNat, .ret (f p), -1)   -- "Remove from the PNCList, even if err != NC_NOERR"
  | .call ncid f =>
    match checkId nullCheck t ncid with
    | .badid => (t, .ret NC_EBADID, -1)
    | .null => (t, .crash, -1)
    | .ok p => (⟨t.slots.set ncid.toNat (some (f p).1), t.num⟩, .ret (f p).2, -1)

/-- a whole program; a crash ends it -/
def run {α : Type} (nullCheck : Bool) : Tab α → List (Op α) → Tab α × List Outcome
  | t, [] => (t, [])
  | t, op :: rest =>
    match step nullCheck t op with
    | (_, .crash, _) => (t, [.crash])
    | (t', o, _) => let r := run nullCheck t' rest; (r.1, o :: r.2)

/-- ncmpio_close: how the status of a close is assembled (src/drivers/ncmpio/ncmpio_close.c).
    Arguments: status of the implicit enddef, of ncmpio_end_indep_data, number of pending lead get /
    put requests, error codes of the two ncmpio_cancel calls and of ncmpio_close_files.
    Result: (status, get requests left, put requests left) — cancel frees every request. -/
def closeStatus (enddefErr indepErr : Int) (nget nput : Nat) (cancelGet cancelPut closeFiles : Int) :
    Int × Nat × Nat :=
  let status := enddefErr
  let status := if status = NC_NOERR then indepErr else status
  let status := if nget > 0 then
                  (let s := if status = NC_NOERR then cancelGet else status
                   if s = NC_NOERR then NC_EPENDING else s)
                else status
  let status := if nput > 0 then
                  (let s := if status = NC_NOERR then cancelPut else status
                   if s = NC_NOERR then NC_EPENDING else s)
                else status
  let status := if status = NC_NOERR then closeFiles else status
  (status, 0, 0)

end PnVerif.IdTable
