import PnVerif.Model.Header
/-
  Model/Safety.lean — what C19 adds to the header reader model of Model/Header.lean (which it
  imports and does not change).  Core Lean only.

    1. `inqFileFormat`, `openVerdict`     the signature test ncmpi_open runs before any driver is
                                          chosen (ncmpi_inq_file_format / ncmpi_open,
                                          src/dispatchers/file.c) in front of ncmpio_hdr_get_NC
    2. `Acc`, `fetchAcc` … `decodeTrace`  an INSTRUMENTED COPY of the window primitives of
                                          ncmpio_header_get.c (hdr_fetch, hdr_get_uint32/64, the copy
                                          loops of hdr_get_NC_name / hdr_get_NC_attrV, the padding
                                          skip): every access the C performs on the chunk buffer
                                          `base[0 .. chunk)` and on the destination of a copy loop,
                                          as (kind, index, length, size of the object)
    3. `consumed`, `endWin`, `bytesFetched`  how far the reader advances in the (zero-extended)
                                          stream and how many bytes hdr_fetch asks MPI-IO for
    4. `guardRun`                         the flat reader with a guard on reads far beyond the end
                                          of the file (used by the driver so that a file whose
                                          header announces 16 GiB of attribute values is an answer,
                                          not an allocation; and by the work-bound counterexample)
-/
namespace PnVerif.Safety
open PnVerif.Spec PnVerif.Header

/-! ### 1. the signature test of ncmpi_open -/

inductive OpenErr where
  | efile                 -- fewer than 8 bytes: `read(fd, signature, 8) != 8`
  | enotnc                -- neither "CDF" 1/2/5 nor an HDF5 signature at 0, 512, 1024, 2048, …
  | enotbuilt             -- HDF5 signature found, library built without NetCDF-4
  | hdr (e : Err)         -- ncmpio_hdr_get_NC refused the header
  deriving DecidableEq, Repr, Inhabited

def OpenErr.code : OpenErr → Int
  | .efile => -204 | .enotnc => -51 | .enotbuilt => -128 | .hdr e => e.code

/-- the offsets at which ncmpi_inq_file_format looks for the HDF5 signature: 0, 512, 1024, …
    (`offset = (offset == 0) ? 512 : offset * 2`); 64 doublings cover every off_t -/
def hdf5Offsets : List Nat := 0 :: (List.range 64).map (fun k => 512 * 2 ^ k)

/-- the `while (rlen == 8 && memcmp(signature, hdf5_signature, 8))` search: the signature is found
    iff 8 bytes can be read at one of the offsets and they match (the offsets increase, so a full
    read at an offset implies full reads at all earlier ones) -/
def hdf5Found (file : Bytes) : Bool :=
  hdf5Offsets.any (fun o => o + 8 ≤ file.length && (file.drop o).take 8 == hdf5Signature)

/-- ncmpi_inq_file_format, then the format dispatch of ncmpi_open (single process) -/
def inqFileFormat (file : Bytes) : Except OpenErr Fmt :=
  if file.length < 8 then .error .efile
  else
    let sig := file.take 8
    let cdf : Option Fmt :=
      if sig.take 3 = [0x43, 0x44, 0x46] then
        (if (sig.drop 3).take 1 = [5] then some .cdf5
         else if (sig.drop 3).take 1 = [2] then some .cdf2
         else if (sig.drop 3).take 1 = [1] then some .cdf1 else none)
      else none
    match cdf with
    | some f => .ok f
    | none => if hdf5Found file then .error .enotbuilt else .error .enotnc

/-- ncmpi_open on one process: signature test, then ncmpio_open → ncmpio_hdr_get_NC -/
def openVerdict (file : Bytes) : Except OpenErr (Hdr × Info) :=
  match inqFileFormat file with
  | .error e => .error e
  | .ok _ =>
    match decodeWhole file with
    | .error e => .error (.hdr e)
    | .ok r => .ok r

/-! ### 2. instrumented copy of the window primitives -/

inductive AccKind where
  | moveSrc     -- memmove(base, pos, slack): bytes read from the buffer
  | moveDst     -- memmove(base, pos, slack): bytes written to the buffer
  | readDst     -- MPI_File_read_at(…, readBuf = base + slack, readLen): bytes written
  | zeroDst     -- memset(readBuf + get_size, 0, readLen - get_size)
  | fixed       -- ncmpix_get_uint32 / ncmpix_get_uint64 at gbp->pos
  | copySrc     -- memcpy(cpos, gbp->pos, count) of a copy loop: source in the buffer
  | copyDst     -- the same memcpy: destination (name / attribute value being filled)
  | skip        -- gbp->pos += padding: the pointer must stay inside base[0 .. chunk]
  deriving DecidableEq, Repr

/-- one access: `len` bytes starting at index `idx` of an object of `size` bytes -/
structure Acc where
  kind : AccKind
  idx  : Nat
  len  : Nat
  size : Nat
  deriving DecidableEq, Repr

/-- an access is inside its object -/
def Acc.Safe (a : Acc) : Prop := a.idx + a.len ≤ a.size

instance (a : Acc) : Decidable a.Safe := by unfold Acc.Safe; infer_instance

/-- the accesses of hdr_fetch in state `w` (`fileLen` decides how many bytes MPI delivers) -/
def fetchAcc (file : Bytes) (chunk : Nat) (w : Win) : List Acc :=
  let slack := chunk - w.pos
  let slack := if slack = chunk then 0 else slack
  let readLen := chunk - slack
  let got := min readLen (file.length - w.off)         -- get_size of MPI_Get_count
  [ { kind := .moveSrc, idx := w.pos, len := slack, size := chunk },
    { kind := .moveDst, idx := 0, len := slack, size := chunk },
    { kind := .readDst, idx := slack, len := readLen, size := chunk },
    { kind := .zeroDst, idx := slack + got, len := readLen - got, size := chunk } ]

/-- hdr_get_uint32 / hdr_get_uint64 (and hdr_get_NC_tag, hdr_get_nc_type) -/
def getFixedAcc (file : Bytes) (chunk : Nat) (k : Nat) (w : Win) : List Acc :=
  if w.pos + k > chunk then
    fetchAcc file chunk w ++ [{ kind := .fixed, idx := (fetch file chunk w).pos, len := k, size := chunk }]
  else [{ kind := .fixed, idx := w.pos, len := k, size := chunk }]

/-- the copy loop; `total` = size of the destination, `done` = bytes already copied.
    Same recursion as `getBytesW`. -/
def getBytesAcc (file : Bytes) (chunk : Nat) (total : Nat) (n : Nat) (w : Win) (done : Nat) : List Acc :=
  if hn : n = 0 then [] else
  let w1 := if chunk - w.pos = 0 then fetch file chunk w else w
  let pre := if chunk - w.pos = 0 then fetchAcc file chunk w else []
  if hk : min (chunk - w1.pos) n = 0 then pre
  else
    pre ++ [ { kind := .copySrc, idx := w1.pos, len := min (chunk - w1.pos) n, size := chunk },
             { kind := .copyDst, idx := done, len := min (chunk - w1.pos) n, size := total } ] ++
      getBytesAcc file chunk total (n - min (chunk - w1.pos) n)
        { w1 with pos := w1.pos + min (chunk - w1.pos) n } (done + min (chunk - w1.pos) n)
termination_by n
decreasing_by
  simp only [w1] at hk
  omega

/-- "handle the padding" -/
def padAcc (file : Bytes) (chunk : Nat) (k : Nat) (w : Win) : List Acc :=
  if w.pos + k > chunk then
    fetchAcc file chunk w ++ [{ kind := .skip, idx := (fetch file chunk w).pos, len := k, size := chunk }]
  else [{ kind := .skip, idx := w.pos, len := k, size := chunk }]

/-- does the copy loop get stuck (the C would spin: nothing left in the buffer and a fetch that
    delivers nothing)?  Mirrors the `hk` exit of `getBytesW`. -/
def getBytesStuck (file : Bytes) (chunk : Nat) (n : Nat) (w : Win) : Bool :=
  if hn : n = 0 then false else
  let w1 := if chunk - w.pos = 0 then fetch file chunk w else w
  if hk : min (chunk - w1.pos) n = 0 then true
  else getBytesStuck file chunk (n - min (chunk - w1.pos) n) { w1 with pos := w1.pos + min (chunk - w1.pos) n }
termination_by n
decreasing_by
  simp only [w1] at hk
  omega

/-- number of iterations (fetch-if-empty + one memcpy) of the copy loop -/
def getBytesIters (file : Bytes) (chunk : Nat) (n : Nat) (w : Win) : Nat :=
  if hn : n = 0 then 0 else
  let w1 := if chunk - w.pos = 0 then fetch file chunk w else w
  if hk : min (chunk - w1.pos) n = 0 then 0
  else 1 + getBytesIters file chunk (n - min (chunk - w1.pos) n) { w1 with pos := w1.pos + min (chunk - w1.pos) n }
termination_by n
decreasing_by
  simp only [w1] at hk
  omega

/-- all accesses of a reader program run through the window, in order -/
def traceRun {α : Type} (file : Bytes) (chunk : Nat) : P α → Win → List Acc
  | .ret _, _ => []
  | .fail _, _ => []
  | .u32 k, w =>
    let r := getFixedW file chunk 4 w
    getFixedAcc file chunk 4 w ++ traceRun file chunk (k (beNat r.1)) r.2
  | .u64 k, w =>
    let r := getFixedW file chunk 8 w
    getFixedAcc file chunk 8 w ++ traceRun file chunk (k (beNat r.1)) r.2
  | .bytes n k, w =>
    let r := getBytesW file chunk n w []
    getBytesAcc file chunk n n w 0 ++ traceRun file chunk (k r.1) r.2
  | .pad p k, w => padAcc file chunk p.val w ++ traceRun file chunk k (padW file chunk p.val w)

/-- does any copy loop of the run get stuck? -/
def stuckRun {α : Type} (file : Bytes) (chunk : Nat) : P α → Win → Bool
  | .ret _, _ => false
  | .fail _, _ => false
  | .u32 k, w => let r := getFixedW file chunk 4 w; stuckRun file chunk (k (beNat r.1)) r.2
  | .u64 k, w => let r := getFixedW file chunk 8 w; stuckRun file chunk (k (beNat r.1)) r.2
  | .bytes n k, w =>
    let r := getBytesW file chunk n w []
    getBytesStuck file chunk n w || stuckRun file chunk (k r.1) r.2
  | .pad p k, w => stuckRun file chunk k (padW file chunk p.val w)

/-- the window state in which a run stops (by `ret` or by `fail`) -/
def endWin {α : Type} (file : Bytes) (chunk : Nat) : P α → Win → Win
  | .ret _, w => w
  | .fail _, w => w
  | .u32 k, w => let r := getFixedW file chunk 4 w; endWin file chunk (k (beNat r.1)) r.2
  | .u64 k, w => let r := getFixedW file chunk 8 w; endWin file chunk (k (beNat r.1)) r.2
  | .bytes n k, w => let r := getBytesW file chunk n w []; endWin file chunk (k r.1) r.2
  | .pad p k, w => endWin file chunk k (padW file chunk p.val w)

/-- the accesses of ncmpio_hdr_get_NC with ncp->chunk = `ncpChunk`: first hdr_fetch, the 4 magic
    bytes (ncmpix_getn_text), the 8 signature bytes in the non-CDF branch, then the body -/
def decodeTrace (ncpChunk : Nat) (file : Bytes) : List Acc :=
  let chunk := chunkOf ncpChunk
  let w00 : Win := { buf := zeros chunk, pos := 0, off := 0 }
  let w0 := fetch file chunk w00
  let first := fetchAcc file chunk w00 ++ [{ kind := .fixed, idx := 0, len := 4, size := chunk }]
  match checkMagic (w0.buf.take 12) with
  | .error _ =>
    if (w0.buf.take 12).take 3 ≠ [0x43, 0x44, 0x46] then
      first ++ [{ kind := .fixed, idx := 4, len := 8, size := chunk }]
    else first
  | .ok f => first ++ traceRun file chunk (getBody f) { w0 with pos := 4 }

/-- does ncmpio_hdr_get_NC get stuck in a copy loop? -/
def decodeStuck (ncpChunk : Nat) (file : Bytes) : Bool :=
  let chunk := chunkOf ncpChunk
  let w0 := fetch file chunk { buf := zeros chunk, pos := 0, off := 0 }
  match checkMagic (w0.buf.take 12) with
  | .error _ => false
  | .ok f => stuckRun file chunk (getBody f) { w0 with pos := 4 }

/-! ### 3. distance travelled -/

/-- bytes of the (zero-extended) stream a reader program consumes on stream `s`; every `bytes n`
    node is preceded in the C by `NCI_Malloc(n + 1)` (name) or `NCI_Malloc(xsz ≥ n)` (attribute
    values), so this is also a lower bound of the bytes the decoder allocates -/
def consumed {α : Type} : P α → Bytes → Nat
  | .ret _, _ => 0
  | .fail _, _ => 0
  | .u32 k, s => 4 + consumed (k (beNat (ztake 4 s))) (s.drop 4)
  | .u64 k, s => 8 + consumed (k (beNat (ztake 8 s))) (s.drop 8)
  | .bytes n k, s => n + consumed (k (ztake n s)) (s.drop n)
  | .pad p k, s => p.val + consumed k (s.drop p.val)

/-- no primitive read of the run reaches beyond the end of the stream -/
def inBounds {α : Type} : P α → Bytes → Bool
  | .ret _, _ => true
  | .fail _, _ => true
  | .u32 k, s => decide (4 ≤ s.length) && inBounds (k (beNat (ztake 4 s))) (s.drop 4)
  | .u64 k, s => decide (8 ≤ s.length) && inBounds (k (beNat (ztake 8 s))) (s.drop 8)
  | .bytes n k, s => decide (n ≤ s.length) && inBounds (k (ztake n s)) (s.drop n)
  | .pad p k, s => decide (p.val ≤ s.length) && inBounds k (s.drop p.val)

/-- gbp->offset when ncmpio_hdr_get_NC stops = total number of bytes hdr_fetch asked MPI-IO to read
    (every call adds its readLen); `none` when the magic is refused (one fetch of `chunk` bytes) -/
def bytesFetched (ncpChunk : Nat) (file : Bytes) : Nat :=
  let chunk := chunkOf ncpChunk
  let w0 := fetch file chunk { buf := zeros chunk, pos := 0, off := 0 }
  match checkMagic (w0.buf.take 12) with
  | .error _ => w0.off
  | .ok f => (endWin file chunk (getBody f) { w0 with pos := 4 }).off

/-- bytes the decoder consumes after the magic (`none`: magic refused) -/
def bodyConsumed (file : Bytes) : Option Nat :=
  match checkMagic (ztake 12 file) with
  | .error _ => none
  | .ok f => some (consumed (getBody f) (file.drop 4))

/-! ### 4. guarded flat reader -/

inductive GRes (α : Type) where
  | ok  (a : α) (rest : Bytes) (c : Nat) (wide : Bool)
  | err (e : Err) (c : Nat) (wide : Bool)
  | big (isCopy : Bool) (upto : Nat) (wide : Bool)   -- a read would end at stream position `upto` > total + limit
  deriving Repr

/-- `run flatR` with a position counter `c`, stopping at the first primitive read that would end
    more than `limit` bytes beyond a file of `total` bytes.  `wide` records whether a 64-bit word
    ≥ 2^63 was read: the C casts those to the signed MPI_Offset, the model (Model/Header.lean) keeps
    them as natural numbers, so the correspondence is claimed only for runs with `wide = false`. -/
def guardRun {α : Type} (total limit : Nat) : P α → Bytes → Nat → Bool → GRes α
  | .ret a, s, c, wd => .ok a s c wd
  | .fail e, _, c, wd => .err e c wd
  | .u32 k, s, c, wd =>
    if c + 4 > total + limit then .big false (c + 4) wd
    else guardRun total limit (k (beNat (ztake 4 s))) (s.drop 4) (c + 4) wd
  | .u64 k, s, c, wd =>
    if c + 8 > total + limit then .big false (c + 8) wd
    else guardRun total limit (k (beNat (ztake 8 s))) (s.drop 8) (c + 8)
           (wd || decide (beNat (ztake 8 s) ≥ 9223372036854775808))
  | .bytes n k, s, c, wd =>
    if c + n > total + limit then .big true (c + n) wd
    else guardRun total limit (k (ztake n s)) (s.drop n) (c + n) wd
  | .pad p k, s, c, wd =>
    if c + p.val > total + limit then .big false (c + p.val) wd
    else guardRun total limit k (s.drop p.val) (c + p.val) wd

inductive Verdict where
  | ok (h : Hdr) (info : Info) (wide : Bool)
  | err (e : OpenErr) (wide : Bool)
  | big (isCopy : Bool) (upto : Nat) (wide : Bool)
  deriving Repr

/-- `openVerdict` through the guarded reader -/
def openGuarded (limit : Nat) (file : Bytes) : Verdict :=
  match inqFileFormat file with
  | .error e => .err e false
  | .ok _ =>
    match checkMagic (ztake 12 file) with
    | .error e => .err (.hdr e) false
    | .ok f =>
      match guardRun file.length limit (getBody f) (file.drop 4) 4 false with
      | .big b m w => .big b m w
      | .err e _ w => .err (.hdr e) w
      | .ok h _ _ w =>
        match postPass h with
        | .error e => .err (.hdr e) w
        | .ok info => .ok h info w


/-! ### 5. variants of the reader: trees that carry repairs of the C19 findings

  `int63` — repair of B10-3 / B10-5 / B10-6 (patch C19-B10-5-int64-header-fields): a 64-bit NON_NEG /
  OFFSET field with the sign bit set (numrecs, dimension length, attribute nelems, begin), an
  attribute whose value size is not representable, and a variable with begin + len > 2^63 − 1 are
  refused with NC_ENOTNC before they enter signed arithmetic.  `int63 = false` is the code as it
  stands (`getBodyS false = getBody`, `postPassS false = postPass`: Lemmas/SafetyStrict.lean).
  The list counts, name lengths, ndims and dimension ids need no new test: their existing upper
  limits already refuse such values. -/

def X_INT64_MAX : Nat := 9223372036854775807

/-- hdr_get_NC_dim with the sign test on dim_length -/
def getDimS (strict : Bool) (ver : Nat) (haveUnlim : Bool) : P Dim := do
  let name ← getName ver
  let dimLength ← getNonNeg ver
  if strict = true ∧ dimLength > X_INT64_MAX then .fail .enotnc else
  if haveUnlim ∧ dimLength = 0 then .fail .eunlimit else
  .ret { name := name, size := dimLength }

def getDimsS (strict : Bool) (ver : Nat) : Nat → Bool → P (List Dim)
  | 0, _ => .ret []
  | n + 1, haveUnlim => do
    let d ← getDimS strict ver haveUnlim
    let ds ← getDimsS strict ver n (haveUnlim || d.size == 0)
    .ret (d :: ds)

def getDimArrayS (strict : Bool) (ver : Nat) : P (List Dim) :=
  getArray ver NC_DIMENSION NC_MAX_DIMS .emaxdims (fun n => getDimsS strict ver n false)

/-- hdr_get_NC_attr with the range test on nelems (`nelems < 0 || nelems > (X_INT64_MAX - X_ALIGN) / xsz`) -/
def getAttrS (strict : Bool) (ver : Nat) : P Att := do
  let name ← getName ver
  let type ← getType ver
  let nelems ← getNonNeg ver
  if strict = true ∧ nelems > (X_INT64_MAX - 4) / type.size then .fail .enotnc else
  let nbytes := nelems * type.size
  let xsz := if nelems > 0 then xlenAttrV type nelems else 0
  let padding : Fin 4 := ⟨xsz - nbytes, by
    show (if nelems > 0 then xlenAttrV type nelems else 0) - nelems * type.size < 4
    split
    · exact xlenAttrV_sub_lt type nelems
    · omega⟩
  let value ← getBytes nbytes
  let a : Att := { name := name, xtype := type, nelems := nelems, xvalue := value }
  if padding.val > 0 then .pad padding (.ret a) else .ret a

def getAttrArrayS (strict : Bool) (ver : Nat) : P (List Att) :=
  getArray ver NC_ATTRIBUTE NC_MAX_ATTRS .emaxatts (fun n => getN (getAttrS strict ver) n)

/-- hdr_get_NC_var with the sign test on begin -/
def getVarS (strict : Bool) (ver : Nat) (fNdims : Nat) : P Var := do
  let name ← getName ver
  let ndims ← getNonNeg ver
  if ndims > NC_MAX_VAR_DIMS then .fail .emaxdims else
  let dimids ← getN (getDimid ver fNdims) ndims
  let atts ← getAttrArrayS strict ver
  let xtype ← getType ver
  let vsize ← getNonNeg ver
  let begin_ ← getBegin ver
  if strict = true ∧ begin_ > X_INT64_MAX then .fail .enotnc else
  .ret { name := name, dimids := dimids, atts := atts, xtype := xtype, vsize := vsize, begin := begin_ }

def getVarArrayS (strict : Bool) (ver : Nat) (fNdims : Nat) : P (List Var) :=
  getArray ver NC_VARIABLE NC_MAX_VARS .emaxvars (fun n => getN (getVarS strict ver fNdims) n)

/-- ncmpio_hdr_get_NC after the magic, with the sign test on numrecs -/
def getBodyS (strict : Bool) (f : Fmt) : P Hdr := do
  let ver := f.version
  let numrecs ← getNonNeg ver
  if strict = true ∧ numrecs > X_INT64_MAX then .fail .enotnc else
  let dims ← getDimArrayS strict ver
  let gatts ← getAttrArrayS strict ver
  let vars ← getVarArrayS strict ver dims.length
  .ret { fmt := f, numrecs := numrecs, dims := dims, gatts := gatts, vars := vars }

/-- the loop of compute_var_shape with the test `begin > X_INT64_MAX - len` after ncmpio_NC_var_shape64 -/
def cvsLoopS (strict : Bool) (dims : List Dim) : List Var → CvsState → Except Err CvsState
  | [], st => .ok st
  | v :: vs, st =>
    match varShape64 dims v with
    | .error e => .error e
    | .ok (shape, len) =>
      if strict = true ∧ v.begin + len > X_INT64_MAX then .error .enotnc else
      let st := { st with shapes := st.shapes ++ [shape], lens := st.lens ++ [len] }
      if isRecShape shape then
        cvsLoopS strict dims vs { st with
          firstRec := (match st.firstRec with | none => some (v.begin, len, dsizes0 shape * v.xtype.size) | some x => some x)
          recsize := st.recsize + len }
      else
        cvsLoopS strict dims vs { st with
          firstVar := (match st.firstVar with | none => some v.begin | some x => some x)
          beginRec := v.begin + len }

def computeVarShapeS (strict : Bool) (h : Hdr) (xsz : Nat) : Except Err (Nat × Nat × Nat × List (List Nat) × List Nat) :=
  if h.vars.length = 0 then .ok (0, 0, 0, [], []) else
  match cvsLoopS strict h.dims h.vars { beginRec := xsz, recsize := 0, firstVar := none, firstRec := none, shapes := [], lens := [] } with
  | .error e => .error e
  | .ok st => cvsFinish xsz st

def postPassS (strict : Bool) (h : Hdr) : Except Err Info :=
  let xsz := h.len
  match computeVarShapeS strict h xsz with
  | .error e => .error e
  | .ok (beginVar, beginRec, recsize, shapes, lens) =>
    let numRec := (shapes.filter isRecShape).length
    match checkVlens h.fmt.version ((h.vars.map (fun v => v.xtype.size)).zip shapes) with
    | .error e => .error e
    | .ok () =>
      match checkVoffs beginVar beginRec numRec
              ((shapes.map isRecShape).zip ((h.vars.map (fun v => v.begin)).zip lens)) with
      | .error e => .error e
      | .ok () =>
        .ok { xsz := xsz, beginVar := beginVar, beginRec := beginRec, recsize := recsize,
              numRecVars := numRec, shapes := shapes, lens := lens }

/-- ncmpio_hdr_get_NC (whole file in view) of a tree with / without the int63 repair -/
def decodeWholeS (strict : Bool) (file : Bytes) : Except Err (Hdr × Info) :=
  match checkMagic (ztake 12 file) with
  | .error e => .error e
  | .ok f =>
    match run flatR (getBodyS strict f) (file.drop 4) with
    | .error e => .error e
    | .ok (h, _) =>
      match postPassS strict h with
      | .error e => .error e
      | .ok info => .ok (h, info)


/-- ncmpio_hdr_get_NC through the read window, tree with / without the int63 repair -/
def decodeChunkedS (strict : Bool) (ncpChunk : Nat) (file : Bytes) : Except Err (Hdr × Info) :=
  let chunk := chunkOf ncpChunk
  let w0 := fetch file chunk { buf := zeros chunk, pos := 0, off := 0 }
  match checkMagic (w0.buf.take 12) with
  | .error e => .error e
  | .ok f =>
    match run (winR file chunk) (getBodyS strict f) { w0 with pos := 4 } with
    | .error e => .error e
    | .ok (h, _) =>
      match postPassS strict h with
      | .error e => .error e
      | .ok info => .ok (h, info)

/-- `bytesFetched` for the variant -/
def bytesFetchedS (strict : Bool) (ncpChunk : Nat) (file : Bytes) : Nat :=
  let chunk := chunkOf ncpChunk
  let w0 := fetch file chunk { buf := zeros chunk, pos := 0, off := 0 }
  match checkMagic (w0.buf.take 12) with
  | .error _ => w0.off
  | .ok f => (endWin file chunk (getBodyS strict f) { w0 with pos := 4 }).off

/-- `openVerdict` / `openGuarded` for the variant -/
def openVerdictS (strict : Bool) (file : Bytes) : Except OpenErr (Hdr × Info) :=
  match inqFileFormat file with
  | .error e => .error e
  | .ok _ =>
    match decodeWholeS strict file with
    | .error e => .error (.hdr e)
    | .ok r => .ok r

def openGuardedS (strict : Bool) (limit : Nat) (file : Bytes) : Verdict :=
  match inqFileFormat file with
  | .error e => .err e false
  | .ok _ =>
    match checkMagic (ztake 12 file) with
    | .error e => .err (.hdr e) false
    | .ok f =>
      match guardRun file.length limit (getBodyS strict f) (file.drop 4) 4 false with
      | .big b m w => .big b m w
      | .err e _ w => .err (.hdr e) w
      | .ok h _ _ w =>
        match postPassS strict h with
        | .error e => .err (.hdr e) w
        | .ok info => .ok h info w


/-! ### 6. variant `eof`: trees that carry the repair of F14 (patch C19-F14-header-read-beyond-eof)

  ncmpio_hdr_get_NC asks for the size of the file once; every header reader first tests
  HDR_CHECK_AVAIL(gbp, n): `n > file_size - (offset - (end - pos))` → NC_ENOTNC, i.e. a primitive read
  that needs bytes beyond the end of the file is refused instead of being served with the zeros
  hdr_fetch pads a short read with.  The copy loops are guarded by one test for the value and its
  padding together before the destination is allocated (same error, nothing observable in between). -/

/-- the flat reader with the end-of-file test -/
def runE {α : Type} : P α → Bytes → Except Err (α × Bytes)
  | .ret a, s => .ok (a, s)
  | .fail e, _ => .error e
  | .u32 k, s => if s.length < 4 then .error .enotnc else runE (k (beNat (ztake 4 s))) (s.drop 4)
  | .u64 k, s => if s.length < 8 then .error .enotnc else runE (k (beNat (ztake 8 s))) (s.drop 8)
  | .bytes n k, s => if s.length < n then .error .enotnc else runE (k (ztake n s)) (s.drop n)
  | .pad p k, s => if s.length < p.val then .error .enotnc else runE k (s.drop p.val)

/-- HDR_REMAIN: bytes of the file not yet consumed, from the window's own bookkeeping
    (`gbp->file_size - (gbp->offset - (gbp->end - gbp->pos))`, signed in the C) -/
def hdrRemain (file : Bytes) (chunk : Nat) (w : Win) : Int :=
  (file.length : Int) - ((w.off : Int) - ((chunk : Int) - (w.pos : Int)))

/-- the window reader with the end-of-file test (the test comes first, then the refill if needed) -/
def runWE {α : Type} (file : Bytes) (chunk : Nat) : P α → Win → Except Err (α × Win)
  | .ret a, w => .ok (a, w)
  | .fail e, _ => .error e
  | .u32 k, w =>
    if (4 : Int) > hdrRemain file chunk w then .error .enotnc
    else let r := getFixedW file chunk 4 w; runWE file chunk (k (beNat r.1)) r.2
  | .u64 k, w =>
    if (8 : Int) > hdrRemain file chunk w then .error .enotnc
    else let r := getFixedW file chunk 8 w; runWE file chunk (k (beNat r.1)) r.2
  | .bytes n k, w =>
    if (n : Int) > hdrRemain file chunk w then .error .enotnc
    else let r := getBytesW file chunk n w []; runWE file chunk (k r.1) r.2
  | .pad p k, w =>
    if (p.val : Int) > hdrRemain file chunk w then .error .enotnc
    else runWE file chunk k (padW file chunk p.val w)

/-- the window state in which a run with the end-of-file test stops -/
def endWinE {α : Type} (file : Bytes) (chunk : Nat) : P α → Win → Win
  | .ret _, w => w
  | .fail _, w => w
  | .u32 k, w =>
    if (4 : Int) > hdrRemain file chunk w then w
    else let r := getFixedW file chunk 4 w; endWinE file chunk (k (beNat r.1)) r.2
  | .u64 k, w =>
    if (8 : Int) > hdrRemain file chunk w then w
    else let r := getFixedW file chunk 8 w; endWinE file chunk (k (beNat r.1)) r.2
  | .bytes n k, w =>
    if (n : Int) > hdrRemain file chunk w then w
    else let r := getBytesW file chunk n w []; endWinE file chunk (k r.1) r.2
  | .pad p k, w =>
    if (p.val : Int) > hdrRemain file chunk w then w
    else endWinE file chunk k (padW file chunk p.val w)

/-- which repairs the tree carries -/
structure Variant where
  int63 : Bool      -- B10-3 / B10-5 / B10-6
  eof   : Bool      -- F14
  deriving DecidableEq, Repr

def Variant.current : Variant := { int63 := false, eof := false }

/-- ncmpio_hdr_get_NC (whole file in view) of a tree of variant `v` -/
def decodeWholeVar (v : Variant) (file : Bytes) : Except Err (Hdr × Info) :=
  match checkMagic (ztake 12 file) with
  | .error e => .error e
  | .ok f =>
    match (if v.eof then runE (getBodyS v.int63 f) (file.drop 4) else run flatR (getBodyS v.int63 f) (file.drop 4)) with
    | .error e => .error e
    | .ok (h, _) =>
      match postPassS v.int63 h with
      | .error e => .error e
      | .ok info => .ok (h, info)

/-- ncmpio_hdr_get_NC through the read window, tree of variant `v` -/
def decodeChunkedVar (v : Variant) (ncpChunk : Nat) (file : Bytes) : Except Err (Hdr × Info) :=
  let chunk := chunkOf ncpChunk
  let w0 := fetch file chunk { buf := zeros chunk, pos := 0, off := 0 }
  match checkMagic (w0.buf.take 12) with
  | .error e => .error e
  | .ok f =>
    match (if v.eof then runWE file chunk (getBodyS v.int63 f) { w0 with pos := 4 }
           else run (winR file chunk) (getBodyS v.int63 f) { w0 with pos := 4 }) with
    | .error e => .error e
    | .ok (h, _) =>
      match postPassS v.int63 h with
      | .error e => .error e
      | .ok info => .ok (h, info)

/-- bytes hdr_fetch asks MPI-IO for, tree of variant `v` -/
def bytesFetchedV (v : Variant) (ncpChunk : Nat) (file : Bytes) : Nat :=
  let chunk := chunkOf ncpChunk
  let w0 := fetch file chunk { buf := zeros chunk, pos := 0, off := 0 }
  match checkMagic (w0.buf.take 12) with
  | .error _ => w0.off
  | .ok f =>
    if v.eof then (endWinE file chunk (getBodyS v.int63 f) { w0 with pos := 4 }).off
    else (endWin file chunk (getBodyS v.int63 f) { w0 with pos := 4 }).off

/-- ncmpi_open's verdict for the driver, tree of variant `v`.  With the F14 repair no read goes
    beyond the end of the file, so the guard of `guardRun` is not needed (and never fires). -/
def openGuardedV (v : Variant) (limit : Nat) (file : Bytes) : Verdict :=
  if v.eof then
    -- was a 64-bit word ≥ 2^63 read before the run stopped?  (`guardRun` with limit 0 stops exactly where `runE` does)
    let wide : Bool := match checkMagic (ztake 12 file) with
      | .error _ => false
      | .ok f =>
        match guardRun file.length 0 (getBodyS v.int63 f) (file.drop 4) 4 false with
        | .ok _ _ _ w => w
        | .err _ _ w => w
        | .big _ _ w => w
    match inqFileFormat file with
    | .error e => .err e false
    | .ok _ =>
      match decodeWholeVar v file with
      | .error e => .err (.hdr e) wide
      | .ok (h, info) => .ok h info wide
  else openGuardedS v.int63 limit file

end PnVerif.Safety
