import PnVerif.Model.Access
import PnVerif.Model.Merge
/-
  C02: two more pieces of the wait path of src/drivers/ncmpio/ncmpio_wait.c.

    vars_flatten()                                   -> `varsFlattenOffs`, `varsFlatten`
        breaks one subarray request (start/count/stride on an array of shape dimlen[], element size
        el_size, first byte at `offset`) into equally long (offset, length, buffer address) segments;
        merge_requests() calls it once per request (per record for record variables, with the record
        dimension stripped) before sorting and merging.
    the buffer-type loop of mgetput() (num_reqs > 1)  -> `bufBlocks`
        walks the (already file-sorted) requests and fuses runs whose I/O buffers are adjacent in
        memory into one (displacement, length) block of the hindexed buffer type.

  Shared definitions (`extend`, `sfHigher`, `elemOff`, `enumIdx`, `expandBlocks`) come from
  Model/Access.lean.  Offsets and sizes are `Nat`, buffer addresses `Int` (MPI_Aint differences).
-/
namespace PnVerif.Flatten
open PnVerif.Access PnVerif.Merge

/-- one pass of `while (ndim > 0)` for dimension d = ndim-1 with `arrayLen` = Π_{j>d} dimlen[j]
    (in elements) and `offs` = the offsets of seg[0 .. subarray_len):
      off = start[d]*array_len*el_size;  for j: seg0->off += off;
      off = array_len*stride[d]*el_size; for (i=1; i<count[d]; i++) { append seg0->off + off; off += …; } -/
def vfStep (el arrayLen s c k : Nat) (offs : List Nat) : List Nat :=
  let base := offs.map (fun x => x + s * arrayLen * el)
  base ++ (List.range (c - 1)).flatMap (fun i => base.map (fun x => x + (i + 1) * (arrayLen * k * el)))

/-- the `while (ndim > 0)` loop; `hi` = the higher dimensions innermost first, each entry
    (start[d], count[d], stride[d], dimlen[d+1], _) as built by `Access.sfHigher` -/
def vfLoop (el : Nat) : List (Nat × Nat × Nat × Nat × Bool) → Nat → List Nat → List Nat
  | [], _, offs => offs
  | (s, c, k, dl, _) :: rest, arrayLen, offs =>
    let arrayLen := arrayLen * dl                          -- array_len *= dimlen[ndim]
    vfLoop el rest arrayLen (vfStep el arrayLen s c k offs)

/-- vars_flatten for ndim ≥ 1: (segment offsets in emission order, common segment length).
    `stride == NULL` is passed as all ones.  Returns no segment when *nseg == 0. -/
def varsFlattenOffs (el offset : Nat) (dimlen start count stride : List Nat) : List Nat × Nat :=
  let sL := start.getLastD 0
  let cL := count.getLastD 0
  let kL := stride.getLastD 1
  let nseg := (if kL = 1 then 1 else cL) * prod count.dropLast
  let segLen := (if kL = 1 then cL else 1) * el
  if nseg = 0 then ([], segLen) else
  let nstride := if kL = 1 then 1 else cL
  let base := (List.range nstride).map (fun i => offset + sL * el + i * (kL * el))
  (vfLoop el (sfHigher start count stride dimlen) 1 base, segLen)

/-- vars_flatten: the off_len array.  Segment number i gets buffer address buf_addr + i*seg_len
    (`buf_addr += seg_len` after every segment, in emission order). -/
def varsFlatten (el offset : Nat) (dimlen : List Nat) (bufAddr : Int) (start count stride : List Nat) : List Seg :=
  if dimlen.length = 0 then [⟨offset, el, bufAddr⟩]               -- scalar (record) variable
  else
    let r := varsFlattenOffs el offset dimlen start count stride
    r.1.mapIdx (fun (i : Nat) (o : Nat) => (⟨(o : Int), (r.2 : Int), bufAddr + (i : Int) * (r.2 : Int)⟩ : Seg))

/-! ### buffer-type construction of mgetput -/

def NC_MAX_INT : Int := 2147483647

/-- the loop body for requests 1.. with the current run (start address, accumulated length):
    `if (req_size <= NC_MAX_INT && ai - a_last_contig == blocklens[last_contig_req])` the request
    extends the run, otherwise the run is closed and a new one starts at `ai`.
    Requests are (address of xbuf, size in bytes); none of them is flagged NC_REQ_SKIP. -/
def bufGo (a0 curStart curLen : Int) : List (Int × Int) → List (Int × Int)
  | [] => [(curStart - a0, curLen)]
  | (ai, sz) :: rest =>
    if curLen + sz ≤ NC_MAX_INT ∧ ai - curStart = curLen then bufGo a0 curStart (curLen + sz) rest
    else (curStart - a0, curLen) :: bufGo a0 ai sz rest

/-- (disps[], blocklens[]) of the buffer type, displacements relative to the first request's buffer
    (`buf = reqs[0].xbuf`); a single block stands for `buf_type = MPI_BYTE, buf_count = blocklens[0]` -/
def bufBlocks : List (Int × Int) → List (Int × Int)
  | [] => []
  | (a, sz) :: rest => bufGo a a sz rest

end PnVerif.Flatten
