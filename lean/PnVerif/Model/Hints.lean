/-
  C10: the part of the configuration handling that is pure logic.

  * `parseAlignHint` / `parseCountHint`: what ncmpio_set_pnetcdf_hints keeps of a numeric hint
    (strtoll / atoi results, negative → default).
  * `resolveAlign`: the precedence logic of ncmpio__enddef between hints (MPI_Info or PNETCDF_HINTS,
    already merged by combine_env_hints), the ncmpi__enddef arguments and the defaults, followed by
    the 4-byte rounding.  Literal transcription.
  Core Lean only.
-/
namespace PnVerif.Hints

def FILE_ALIGNMENT_DEFAULT : Nat := 512

/-- D_RNDUP(x, 4) -/
def rndup4 (x : Nat) : Nat := ((x + 3) / 4) * 4

/-- `if (x == 0) x = 4; else x = D_RNDUP(x, 4);` -/
def fin4 (x : Nat) : Nat := if x = 0 then 4 else rndup4 x

/-- value kept for nc_header_align_size / nc_var_align_size / nc_record_align_size:
    `none` = hint absent; negative → 0 (= "not set") -/
def parseAlignHint : Option Int → Nat
  | none => 0
  | some v => if v < 0 then 0 else v.toNat

structure AlignIn where
  envH : Nat            -- ncp->env_h_align   (0 = hint not set)
  envV : Nat
  envR : Nat
  argV : Nat            -- v_align argument of ncmpi__enddef (0 for ncmpi_enddef)
  argR : Nat
  numFixVars : Nat
  isRedef : Bool        -- ncp->old != NULL
  deriving Repr

structure AlignOut where
  h : Nat
  v : Nat
  r : Nat
  deriving Repr, DecidableEq

def resolveAlign (i : AlignIn) : AlignOut :=
  -- reset to hints set at file create/open time
  let h := i.envH
  let v := i.envV
  let r := i.envR
  let h :=
    if h = 0 then
      let h := if v > 0 then v else if i.argV > 0 then i.argV else h
      let h := if h = 0 ∧ i.numFixVars = 0 then (if r > 0 then r else if i.argR > 0 then i.argR else h) else h
      if h = 0 ∧ !i.isRedef then FILE_ALIGNMENT_DEFAULT else h
    else h
  let v := if v = 0 then (if i.argV > 0 then i.argV else v) else v
  let r := if r = 0 then (if i.argR > 0 then i.argR else r) else r
  -- all CDF formats require 4-byte alignment
  { h := fin4 h, v := fin4 v, r := fin4 r }

end PnVerif.Hints
