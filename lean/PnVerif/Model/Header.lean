import PnVerif.Spec.SpecDecode
/-
  Model/Header.lean — executable model of the classic-header reader and writer of PnetCDF
  (hand transcription; tied to the C by the C04/C03 correspondence harnesses).

    src/drivers/ncmpio/ncmpio_header_put.c   hdr_put_NC_*            → `put*`, `encodeRaw`, `Hdr.encode`
    src/drivers/ncmpio/ncmpio_header_get.c   hdr_len_NC_*            → `len*`, `Hdr.len`
                                             hdr_fetch               → `fetch`
                                             hdr_get_uint32/64       → `getFixedW`
                                             copy loops of hdr_get_NC_name / hdr_get_NC_attrV → `getBytesW`
                                             padding skip            → `padW`
                                             hdr_get_NC_*            → the reader program `get*` (monad `P`)
                                             ncmpio_hdr_get_NC       → `decodeChunked`, `decodeWhole`
                                             compute_var_shape       → `computeVarShape`
    src/drivers/ncmpio/ncmpio_var.c          ncmpio_NC_var_shape64   → `varShape64`
    src/drivers/ncmpio/ncmpio_enddef.c       ncmpio_NC_check_vlen(s) → `checkVlen`, `checkVlens`
                                             ncmpio_NC_check_voffs   → `checkVoffs`
    src/drivers/ncmpio/ncmpio_attr.c         x_len_NC_attrV          → `xlenAttrV`

  The reader is written ONCE, as a program over four primitive reads (32-bit word, 64-bit word,
  n bytes, skip ≤ 3 padding bytes) — this is exactly the layering of the C (every hdr_get_NC_* goes
  through hdr_get_uint32/64, the two copy loops and the padding skip).  The program is interpreted
  by two readers: the window reader (buffer of `chunk` bytes, `pos`, file offset: the C machinery)
  and the flat reader (the remaining bytes of the file, zero-extended).  `decodeChunked c` and
  `decodeWhole` are the two interpretations.  Core Lean only.
-/
namespace PnVerif.Header
open PnVerif.Spec

abbrev Hdr := Schema

/-! ### constants (pnetcdf.h, ncmpio_NC.h) -/
def NC_MAX_INT : Nat := 2147483647
def NC_MAX_UINT : Nat := 4294967295
def NC_MAX_INT64 : Nat := 9223372036854775807
def NC_MAX_NAME : Nat := 256
def NC_MAX_DIMS : Nat := NC_MAX_INT
def NC_MAX_ATTRS : Nat := NC_MAX_INT
def NC_MAX_VARS : Nat := NC_MAX_INT
def NC_MAX_VAR_DIMS : Nat := NC_MAX_INT
def MIN_NC_XSZ : Nat := 32
def NC_DIMENSION : Nat := 10
def NC_VARIABLE : Nat := 11
def NC_ATTRIBUTE : Nat := 12

inductive Err where
  | enotnc | enotnc3 | emaxname | emaxdims | emaxatts | emaxvars | ebadtype | ebaddim
  | eunlimpos | eunlimit | evarsize | eintoverflow
  deriving DecidableEq, Repr, Inhabited

/-- numeric NC_* code -/
def Err.code : Err → Int
  | .enotnc => -51 | .enotnc3 => -113 | .emaxname => -53 | .emaxdims => -41 | .emaxatts => -44
  | .emaxvars => -48 | .ebadtype => -45 | .ebaddim => -46 | .eunlimpos => -47 | .eunlimit => -54
  | .evarsize => -62 | .eintoverflow => -221

/-- PNETCDF_RNDUP(x, unit) -/
def rndup (x unit : Nat) : Nat := (x + unit - 1) / unit * unit

def zeros (n : Nat) : Bytes := List.replicate n 0

/-- `n` bytes from the front of `s`, zero-extended when `s` is shorter
    (a short read of the header leaves the rest of the buffer zeroed) -/
def ztake (n : Nat) (s : Bytes) : Bytes := s.take n ++ zeros (n - s.length)

/-- ncmpix_get_uint32 / ncmpix_get_uint64: big-endian value -/
def beNat (bs : Bytes) : Nat := bs.foldl (fun acc b => acc * 256 + b.toNat) 0

/-- ncmpix_put_uint32 of `(uint)n` -/
def be32 (n : Nat) : Bytes :=
  [UInt8.ofNat (n / 16777216), UInt8.ofNat (n / 65536), UInt8.ofNat (n / 256), UInt8.ofNat n]

/-- ncmpix_put_uint64 of `(uint64)n` -/
def be64 (n : Nat) : Bytes :=
  [UInt8.ofNat (n / 72057594037927936), UInt8.ofNat (n / 281474976710656), UInt8.ofNat (n / 1099511627776),
   UInt8.ofNat (n / 4294967296), UInt8.ofNat (n / 16777216), UInt8.ofNat (n / 65536), UInt8.ofNat (n / 256),
   UInt8.ofNat n]

/-! ### writer: ncmpio_header_put.c -/

/-- a NON_NEG field: 4 bytes for CDF-1/2, 8 bytes for CDF-5 -/
def putNonNeg (ver : Nat) (n : Nat) : Bytes := if ver < 5 then be32 n else be64 n

/-- strlen(): hdr_put_NC_name writes strlen(name) characters -/
def cstr (name : Bytes) : Bytes := name.takeWhile (fun b => b != 0)

/-- hdr_put_NC_name + ncmpix_pad_putn_text -/
def putName (ver : Nat) (name : Bytes) : Bytes :=
  let s := cstr name
  let nchars := s.length
  let rnd := nchars % 4
  let rnd := if rnd ≠ 0 then 4 - rnd else 0
  putNonNeg ver nchars ++ s ++ zeros rnd

def putDim (ver : Nat) (d : Dim) : Bytes := putName ver d.name ++ putNonNeg ver d.size

def putDimArray (ver : Nat) (ds : List Dim) : Bytes :=
  if ds.length = 0 then be32 0 ++ putNonNeg ver 0
  else be32 NC_DIMENSION ++ putNonNeg ver ds.length ++ ds.flatMap (putDim ver)

/-- x_len_NC_attrV: space of `nelems` values, 4-byte aligned -/
def xlenAttrV (t : NcType) (nelems : Nat) : Nat :=
  match t with
  | .byte | .char | .ubyte => rndup nelems 4
  | .short | .ushort => (nelems + nelems % 2) * 2
  | .int | .uint | .float => nelems * 4
  | .double | .int64 | .uint64 => nelems * 8

/-- attrp->xsz as set by ncmpio_new_NC_attr -/
def attrXsz (a : Att) : Nat := if a.nelems > 0 then xlenAttrV a.xtype a.nelems else 0

/-- hdr_put_NC_attrV: memcpy of `sz` value bytes, memset of the padding -/
def putAttrV (a : Att) : Bytes :=
  let sz := a.nelems * a.xtype.size
  let padding := attrXsz a - sz
  ztake sz a.xvalue ++ zeros padding

def putAttr (ver : Nat) (a : Att) : Bytes :=
  putName ver a.name ++ be32 a.xtype.code ++ putNonNeg ver a.nelems ++
    (if a.nelems > 0 then putAttrV a else [])

def putAttrArray (ver : Nat) (as : List Att) : Bytes :=
  if as.length = 0 then be32 0 ++ putNonNeg ver 0
  else be32 NC_ATTRIBUTE ++ putNonNeg ver as.length ++ as.flatMap (putAttr ver)

/-- the `begin` field: 4 bytes in CDF-1, 8 bytes otherwise -/
def putBegin (ver : Nat) (b : Nat) : Bytes := if ver = 1 then be32 b else be64 b

/-- hdr_put_NC_var, the vsize field written as it stands in `v.vsize` -/
def putVar (ver : Nat) (v : Var) : Bytes :=
  putName ver v.name ++ putNonNeg ver v.dimids.length ++ v.dimids.flatMap (putNonNeg ver) ++
    putAttrArray ver v.atts ++ be32 v.xtype.code ++ putNonNeg ver v.vsize ++ putBegin ver v.begin

def putVarArray (ver : Nat) (vs : List Var) : Bytes :=
  if vs.length = 0 then be32 0 ++ putNonNeg ver 0
  else be32 NC_VARIABLE ++ putNonNeg ver vs.length ++ vs.flatMap (putVar ver)

def magicBytes (f : Fmt) : Bytes := [0x43, 0x44, 0x46, UInt8.ofNat f.version]

/-- ncmpio_hdr_put_NC with every field written as stored in `h` (in particular the vsize
    fields): this is also the *specification encoder* of the C04 harness, able to emit layouts
    PnetCDF never writes (gaps, stale or saturated vsize, …) -/
def encodeRaw (h : Hdr) : Bytes :=
  let ver := h.fmt.version
  magicBytes h.fmt ++ putNonNeg ver h.numrecs ++ putDimArray ver h.dims ++ putAttrArray ver h.gatts ++
    putVarArray ver h.vars

/-- the vsize computation of hdr_put_NC_var from the in-memory `varp->len` -/
def satVsize (ver : Nat) (len : Nat) : Nat :=
  if ver < 5 then (if len > 4294967292 then 4294967295 else len) else len

/-- the header as the library holds it at write time: vsize fields come from the variable lengths -/
def withLens (h : Hdr) (lens : List Nat) : Hdr :=
  { h with vars := (h.vars.zip lens).map (fun (v, l) => { v with vsize := satVsize h.fmt.version l }) }

/-- the NC_EINTOVERFLOW guards of ncmpio_hdr_put_NC, in the order the C meets them -/
def attrChecks (ver : Nat) (as : List Att) : Except Err Unit :=
  as.forM (fun a =>
    if ver < 5 ∧ a.nelems > NC_MAX_INT then .error .eintoverflow
    else if a.nelems > 0 ∧ ver < 5 ∧ a.nelems * a.xtype.size > NC_MAX_INT then .error .eintoverflow
    else .ok ())

def encodeChecks (h : Hdr) : Except Err Unit := do
  let ver := h.fmt.version
  if ver < 5 ∧ h.numrecs > NC_MAX_INT then .error .eintoverflow
  h.dims.forM (fun d => if ver < 5 ∧ d.size > NC_MAX_INT then .error .eintoverflow else .ok ())
  attrChecks ver h.gatts
  h.vars.forM (fun v => do
    attrChecks ver v.atts
    if ver = 1 ∧ v.begin > NC_MAX_INT then .error .eintoverflow else .ok ())

/-- ncmpio_hdr_put_NC on an NC object whose variables have the lengths `lens` -/
def Hdr.encode (h : Hdr) (lens : List Nat) : Except Err Bytes := do
  encodeChecks h
  pure (encodeRaw (withLens h lens))

/-! ### header size: hdr_len_NC_* in ncmpio_header_get.c -/

def sizeofNonNeg (ver : Nat) : Nat := if ver = 5 then 8 else 4
def sizeofOff (ver : Nat) : Nat := if ver = 5 then 8 else if ver = 2 then 8 else 4

def lenDim (w : Nat) (d : Dim) : Nat := w + rndup d.name.length 4 + w

def lenDimArray (w : Nat) (ds : List Dim) : Nat := 4 + w + (ds.map (lenDim w)).sum

def lenAttr (w : Nat) (a : Att) : Nat := w + rndup a.name.length 4 + 4 + w + attrXsz a

def lenAttrArray (w : Nat) (as : List Att) : Nat := 4 + w + (as.map (lenAttr w)).sum

def lenVar (w o : Nat) (v : Var) : Nat :=
  w + rndup v.name.length 4 + w + w * v.dimids.length + lenAttrArray w v.atts + 4 + w + o

def lenVarArray (w o : Nat) (vs : List Var) : Nat := 4 + w + (vs.map (lenVar w o)).sum

/-- ncmpio_hdr_len_NC -/
def Hdr.len (h : Hdr) : Nat :=
  let w := sizeofNonNeg h.fmt.version
  let o := sizeofOff h.fmt.version
  4 + w + lenDimArray w h.dims + lenAttrArray w h.gatts + lenVarArray w o h.vars

/-! ### reader program -/

/-- reader programs over the four primitive reads of ncmpio_header_get.c -/
inductive P (α : Type) : Type where
  | ret   : α → P α
  | fail  : Err → P α
  | u32   : (Nat → P α) → P α                 -- hdr_get_uint32 (also hdr_get_NC_tag, hdr_get_nc_type)
  | u64   : (Nat → P α) → P α                 -- hdr_get_uint64
  | bytes : Nat → (Bytes → P α) → P α         -- the copy loop of hdr_get_NC_name / hdr_get_NC_attrV
  | pad   : Fin 4 → P α → P α                 -- "handle the padding": skip ≤ 3 bytes

def P.bind {α β : Type} : P α → (α → P β) → P β
  | .ret a, f => f a
  | .fail e, _ => .fail e
  | .u32 k, f => .u32 (fun n => (k n).bind f)
  | .u64 k, f => .u64 (fun n => (k n).bind f)
  | .bytes n k, f => .bytes n (fun b => (k b).bind f)
  | .pad p k, f => .pad p (k.bind f)

instance : Monad P where
  pure := P.ret
  bind := P.bind

def getU32 : P Nat := .u32 .ret
def getU64 : P Nat := .u64 .ret
def getBytes (n : Nat) : P Bytes := .bytes n .ret

/-- `if (gbp->version < 5) hdr_get_uint32 else hdr_get_uint64` -/
def getNonNeg (ver : Nat) : P Nat := if ver < 5 then getU32 else getU64

theorem rndup4_sub_lt (n : Nat) : rndup n 4 - n < 4 := by
  unfold rndup; omega

/-- hdr_get_NC_name -/
def getName (ver : Nat) : P Bytes := do
  let nchars ← getNonNeg ver
  if nchars > NC_MAX_NAME then .fail .emaxname else
  let s ← getBytes nchars
  let padding : Fin 4 := ⟨rndup nchars 4 - nchars, rndup4_sub_lt nchars⟩
  if padding.val > 0 then .pad padding (.ret s) else .ret s

/-- hdr_get_NC_dim; `haveUnlim` is `unlimited_id != -1` -/
def getDim (ver : Nat) (haveUnlim : Bool) : P Dim := do
  let name ← getName ver
  let dimLength ← getNonNeg ver
  if haveUnlim ∧ dimLength = 0 then .fail .eunlimit else
  .ret { name := name, size := dimLength }

/-- the loop of hdr_get_NC_dimarray -/
def getDims (ver : Nat) : Nat → Bool → P (List Dim)
  | 0, _ => .ret []
  | n + 1, haveUnlim => do
    let d ← getDim ver haveUnlim
    let ds ← getDims ver n (haveUnlim || d.size == 0)
    .ret (d :: ds)

/-- hdr_get_NC_dimarray / hdr_get_NC_attrarray / hdr_get_NC_vararray are the same text up to the
    tag, the limit and its error code: read tag and nelems, check the limit, accept any tag when
    nelems = 0, otherwise demand the tag and run the item loop -/
def getArray {α : Type} (ver : Nat) (tagWant maxN : Nat) (errMax : Err) (items : Nat → P (List α)) : P (List α) := do
  let tag ← getU32
  let ndefined ← getNonNeg ver
  if ndefined > maxN then .fail errMax else
  if ndefined = 0 then .ret [] else
  if tag ≠ tagWant then .fail .enotnc else
  items ndefined

/-- hdr_get_NC_dimarray -/
def getDimArray (ver : Nat) : P (List Dim) :=
  getArray ver NC_DIMENSION NC_MAX_DIMS .emaxdims (fun n => getDims ver n false)

/-- hdr_get_nc_type -/
def getType (ver : Nat) : P NcType := do
  let xtype ← getU32
  if xtype < 1 then .fail .ebadtype else
  if ver < 5 ∧ xtype > 6 then .fail .ebadtype else
  if ¬ ver < 5 ∧ xtype > 11 then .fail .ebadtype else
  match NcType.ofCode xtype with
  | some t => .ret t
  | none => .fail .ebadtype          -- not reachable: 1 ≤ xtype ≤ 11 here

theorem xlenAttrV_sub_lt (t : NcType) (n : Nat) : xlenAttrV t n - n * t.size < 4 := by
  cases t <;> simp [xlenAttrV, NcType.size, rndup] <;> omega

/-- hdr_get_NC_attr (ncmpio_new_NC_attr + hdr_get_NC_attrV) -/
def getAttr (ver : Nat) : P Att := do
  let name ← getName ver
  let type ← getType ver
  let nelems ← getNonNeg ver
  -- hdr_get_NC_attrV: nbytes = nelems * xsz, padding = attrp->xsz - nbytes
  let nbytes := nelems * type.size
  let xsz := if nelems > 0 then xlenAttrV type nelems else 0
  let padding : Fin 4 := ⟨xsz - nbytes, by
    show (if nelems > 0 then xlenAttrV type nelems else 0) - nelems * type.size < 4
    split
    · exact xlenAttrV_sub_lt type nelems
    · omega⟩
  let value ← getBytes nbytes
  let a : Att := { name := name, xtype := type, nelems := nelems, xvalue := value }
  if padding.val > 0 then .pad padding (.ret a) else .ret a

/-- `n` items in sequence (the for-loops of the *array readers) -/
def getN {α : Type} (item : P α) : Nat → P (List α)
  | 0 => .ret []
  | n + 1 => do
    let x ← item
    let xs ← getN item n
    .ret (x :: xs)

/-- hdr_get_NC_attrarray -/
def getAttrArray (ver : Nat) : P (List Att) :=
  getArray ver NC_ATTRIBUTE NC_MAX_ATTRS .emaxatts (fun n => getN (getAttr ver) n)

/-- one `dimid` of hdr_get_NC_var -/
def getDimid (ver : Nat) (fNdims : Nat) : P Nat := do
  let tmp ← getNonNeg ver
  if tmp ≥ fNdims then .fail .ebaddim else .ret tmp

/-- the `begin` field: `if (gbp->version == 1) hdr_get_uint32 else hdr_get_uint64` -/
def getBegin (ver : Nat) : P Nat := if ver = 1 then getU32 else getU64

/-- hdr_get_NC_var -/
def getVar (ver : Nat) (fNdims : Nat) : P Var := do
  let name ← getName ver
  let ndims ← getNonNeg ver
  if ndims > NC_MAX_VAR_DIMS then .fail .emaxdims else
  let dimids ← getN (getDimid ver fNdims) ndims
  let atts ← getAttrArray ver
  let xtype ← getType ver
  let vsize ← getNonNeg ver
  let begin_ ← getBegin ver
  .ret { name := name, dimids := dimids, atts := atts, xtype := xtype, vsize := vsize, begin := begin_ }

/-- hdr_get_NC_vararray -/
def getVarArray (ver : Nat) (fNdims : Nat) : P (List Var) :=
  getArray ver NC_VARIABLE NC_MAX_VARS .emaxvars (fun n => getN (getVar ver fNdims) n)

/-- the part of ncmpio_hdr_get_NC after the magic: numrecs, dim_list, gatt_list, var_list -/
def getBody (f : Fmt) : P Hdr := do
  let ver := f.version
  let numrecs ← getNonNeg ver
  let dims ← getDimArray ver
  let gatts ← getAttrArray ver
  let vars ← getVarArray ver dims.length
  .ret { fmt := f, numrecs := numrecs, dims := dims, gatts := gatts, vars := vars }

/-! ### readers -/

structure Reader (σ : Type) where
  u32   : σ → Nat × σ
  u64   : σ → Nat × σ
  bytes : Nat → σ → Bytes × σ
  pad   : Nat → σ → σ

def run {σ α : Type} (r : Reader σ) : P α → σ → Except Err (α × σ)
  | .ret a, s => .ok (a, s)
  | .fail e, _ => .error e
  | .u32 k, s => let p := r.u32 s; run r (k p.1) p.2
  | .u64 k, s => let p := r.u64 s; run r (k p.1) p.2
  | .bytes n k, s => let p := r.bytes n s; run r (k p.1) p.2
  | .pad p k, s => run r k (r.pad p.val s)

/-- the flat reader: the state is the rest of the file; reads past the end see zeros -/
def flatR : Reader Bytes where
  u32 s := (beNat (ztake 4 s), s.drop 4)
  u64 s := (beNat (ztake 8 s), s.drop 8)
  bytes n s := (ztake n s, s.drop n)
  pad k s := s.drop k

/-- the read window of `bufferinfo`: `buf` = base[0..chunk), `pos` = gbp->pos - gbp->base,
    `off` = gbp->offset (file offset of the next read) -/
structure Win where
  buf : Bytes
  pos : Nat
  off : Nat
  deriving Repr

/-- hdr_fetch (rank 0's view; the other ranks receive the same buffer by MPI_Bcast) -/
def fetch (file : Bytes) (chunk : Nat) (w : Win) : Win :=
  let slack := chunk - w.pos
  let slack := if slack = chunk then 0 else slack
  let readLen := chunk - slack
  -- memmove(base, pos, slack); read readLen bytes at `offset` to base+slack, zero-fill a short read
  { buf := (w.buf.drop w.pos).take slack ++ ztake readLen (file.drop w.off)
    pos := 0
    off := w.off + readLen }

/-- hdr_get_uint32 (k = 4) / hdr_get_uint64 (k = 8): fetch if fewer than k bytes are left -/
def getFixedW (file : Bytes) (chunk : Nat) (k : Nat) (w : Win) : Bytes × Win :=
  let w1 := if w.pos + k > chunk then fetch file chunk w else w
  ((w1.buf.drop w1.pos).take k, { w1 with pos := w1.pos + k })

/-- the `while (nchars > 0)` copy loop of hdr_get_NC_name / hdr_get_NC_attrV.  The C alternates
    "copy min(bufremain, n)" and "fetch when bufremain == 0"; here one iteration does the fetch (if
    needed) and the copy that follows it. -/
def getBytesW (file : Bytes) (chunk : Nat) (n : Nat) (w : Win) (acc : Bytes) : Bytes × Win :=
  if hn : n = 0 then (acc, w) else
  let w1 := if chunk - w.pos = 0 then fetch file chunk w else w
  if hk : min (chunk - w1.pos) n = 0 then (acc, w1)      -- not reachable when chunk > 0 (the C would spin)
  else getBytesW file chunk (n - min (chunk - w1.pos) n)
         { w1 with pos := w1.pos + min (chunk - w1.pos) n }
         (acc ++ (w1.buf.drop w1.pos).take (min (chunk - w1.pos) n))
termination_by n
decreasing_by
  simp only [w1] at hk
  omega

/-- "handle the padding": `if (pos + padding > end) hdr_fetch; pos += padding` -/
def padW (file : Bytes) (chunk : Nat) (k : Nat) (w : Win) : Win :=
  let w1 := if w.pos + k > chunk then fetch file chunk w else w
  { w1 with pos := w1.pos + k }

def winR (file : Bytes) (chunk : Nat) : Reader Win where
  u32 w := let r := getFixedW file chunk 4 w; (beNat r.1, r.2)
  u64 w := let r := getFixedW file chunk 8 w; (beNat r.1, r.2)
  bytes n w := getBytesW file chunk n w []
  pad k w := padW file chunk k w

/-! ### post-pass of ncmpio_hdr_get_NC: shapes, lengths, offsets -/

structure Info where
  xsz      : Nat
  beginVar : Nat
  beginRec : Nat
  recsize  : Nat
  numRecVars : Nat
  shapes   : List (List Nat)
  lens     : List Nat
  deriving DecidableEq, Repr, Inhabited

/-- IS_RECVAR on a computed shape -/
def isRecShape (shape : List Nat) : Bool :=
  match shape with
  | [] => false
  | s0 :: _ => s0 == 0

/-- the shape[] loop of ncmpio_NC_var_shape64 (`i` = index of the first element of `ids`) -/
def shapeOf (dims : List Dim) : List Nat → Nat → Except Err (List Nat)
  | [], _ => .ok []
  | id :: ids, i =>
    match dims[id]? with
    | none => .error .ebaddim       -- not reachable: dimids were checked by hdr_get_NC_var / def_var
    | some d =>
      if d.size = 0 ∧ i ≠ 0 then .error .eunlimpos
      else match shapeOf dims ids (i + 1) with
        | .ok sh => .ok (d.size :: sh)
        | .error e => .error e

/-- ncmpio_NC_check_vlen: is xsz * Π shape[i] (i from 1 for a record variable) ≤ vlen_max,
    computed without overflow -/
def checkVlenLoop (vlenMax : Nat) : List Nat → Nat → Bool
  | [], _ => true
  | s :: rest, prod =>
    if prod = 0 then false          -- not reachable (the C would divide by zero): prod ≥ xsz ≥ 1
    else if s > vlenMax / prod then false
    else checkVlenLoop vlenMax rest (prod * s)

def checkVlen (xsz : Nat) (shape : List Nat) (vlenMax : Nat) : Bool :=
  checkVlenLoop vlenMax (if isRecShape shape then shape.drop 1 else shape) xsz

/-- the right-to-left product loop of ncmpio_NC_var_shape64 for ndims > 1:
    `product = shape[ndims-1]; for (i = ndims-2; i >= 0; i--) if (shape[i] != NC_UNLIMITED) product *= shape[i]` -/
def prodR : List Nat → Nat
  | [] => 1
  | [s] => s
  | s :: t => (if s ≠ 0 then s else 1) * prodR t

/-- `product` of ncmpio_NC_var_shape64 -/
def shapeProduct (shape : List Nat) : Nat :=
  match shape with
  | [] => 1
  | [s0] => if s0 = 0 then 1 else s0
  | _ => prodR shape

/-- dsizes[0] of ncmpio_NC_var_shape64 -/
def dsizes0 (shape : List Nat) : Nat :=
  match shape with
  | [] => 1
  | [s0] => if s0 = 0 then 1 else s0
  | _ => shapeProduct shape

/-- ncmpio_NC_var_shape64: (shape, len) -/
def varShape64 (dims : List Dim) (v : Var) : Except Err (List Nat × Nat) :=
  match shapeOf dims v.dimids 0 with
  | .error e => .error e
  | .ok shape =>
    if ¬ checkVlen v.xtype.size shape (NC_MAX_INT64 - 3) then .error .evarsize
    else
      let len := shapeProduct shape * v.xtype.size
      let len := if len % 4 > 0 then len + (4 - len % 4) else len
      .ok (shape, len)

structure CvsState where
  beginRec : Nat
  recsize  : Nat
  firstVar : Option Nat        -- begin of the first fixed variable
  firstRec : Option (Nat × Nat × Nat)   -- (begin, len, dsizes[0]*xsz) of the first record variable
  shapes   : List (List Nat)
  lens     : List Nat

/-- the loop of compute_var_shape -/
def cvsLoop (dims : List Dim) : List Var → CvsState → Except Err CvsState
  | [], st => .ok st
  | v :: vs, st =>
    match varShape64 dims v with
    | .error e => .error e
    | .ok (shape, len) =>
      let st := { st with shapes := st.shapes ++ [shape], lens := st.lens ++ [len] }
      if isRecShape shape then
        cvsLoop dims vs { st with
          firstRec := (match st.firstRec with | none => some (v.begin, len, dsizes0 shape * v.xtype.size) | some x => some x)
          recsize := st.recsize + len }
      else
        cvsLoop dims vs { st with
          firstVar := (match st.firstVar with | none => some v.begin | some x => some x)
          beginRec := v.begin + len }

/-- the `if (first_rec != NULL)` block of compute_var_shape: (begin_rec, recsize) -/
def cvsRec (st : CvsState) : Except Err (Nat × Nat) :=
  match st.firstRec with
  | none => .ok (st.beginRec, st.recsize)
  | some (fbegin, flen, fpacked) =>
    if st.beginRec > fbegin then .error .enotnc
    else .ok (fbegin, if st.recsize = flen then fpacked else st.recsize)

/-- the end of compute_var_shape: begin_var and the four sanity tests -/
def cvsFinish (xsz : Nat) (st : CvsState) : Except Err (Nat × Nat × Nat × List (List Nat) × List Nat) :=
  match cvsRec st with
  | .error e => .error e
  | .ok (beginRec, recsize) =>
    let beginVar := st.firstVar.getD beginRec      -- first_var != NULL ? first_var->begin : begin_rec
    if beginVar ≤ 0 ∨ xsz > beginVar ∨ beginRec ≤ 0 ∨ beginVar > beginRec then .error .enotnc
    else .ok (beginVar, beginRec, recsize, st.shapes, st.lens)

/-- compute_var_shape: (begin_var, begin_rec, recsize, shapes, lens).  With no variable the C
    leaves begin_var / begin_rec / recsize as calloc made them (0). -/
def computeVarShape (h : Hdr) (xsz : Nat) : Except Err (Nat × Nat × Nat × List (List Nat) × List Nat) :=
  if h.vars.length = 0 then .ok (0, 0, 0, [], []) else
  match cvsLoop h.dims h.vars { beginRec := xsz, recsize := 0, firstVar := none, firstRec := none, shapes := [], lens := [] } with
  | .error e => .error e
  | .ok st => cvsFinish xsz st

/-- first pass / second pass of ncmpio_NC_check_vlens over the variables of one kind:
    returns (number of too-large variables, was the last one too large) -/
def vlensPass (ver : Nat) (vlenMax : Nat) (wantRec : Bool) :
    List (Nat × List Nat) → Nat → Bool → Except Err (Nat × Bool)
  | [], cnt, last => .ok (cnt, last)
  | (xsz, shape) :: rest, cnt, last =>
    if isRecShape shape ≠ wantRec then vlensPass ver vlenMax wantRec rest cnt last
    else if ¬ checkVlen xsz shape vlenMax then
      if ver ≥ 5 then .error .evarsize
      else vlensPass ver vlenMax wantRec rest (cnt + 1) true
    else vlensPass ver vlenMax wantRec rest cnt false

/-- ncmpio_NC_check_vlens; `vs` = (xsz, shape) of every variable -/
def checkVlens (ver : Nat) (vs : List (Nat × List Nat)) : Except Err Unit :=
  if vs.length = 0 then .ok () else
  let vlenMax := if ver ≥ 5 then NC_MAX_INT64 - 3 else if ver = 2 then NC_MAX_UINT - 3 else NC_MAX_INT - 3
  let recCount := (vs.filter (fun p => isRecShape p.2)).length
  match vlensPass ver vlenMax false vs 0 false with
  | .error e => .error e
  | .ok (largeFix, last) =>
    if largeFix > 1 then .error .evarsize
    else if largeFix = 1 ∧ last = false then .error .evarsize
    else if recCount = 0 then .ok ()
    else if largeFix = 1 then .error .evarsize
    else match vlensPass ver vlenMax true vs 0 false with
      | .error e => .error e
      | .ok (largeRec, last) =>
        if largeRec > 1 then .error .evarsize
        else if largeRec = 1 ∧ last = false then .error .evarsize
        else .ok ()

/-- one pass of ncmpio_NC_check_voffs over the variables of one kind: (isRec, begin, len) -/
def voffsPass (wantRec : Bool) : List (Bool × Nat × Nat) → Nat → Except Err Nat
  | [], prevOff => .ok prevOff
  | (isRec, bg, len) :: rest, prevOff =>
    if isRec ≠ wantRec then voffsPass wantRec rest prevOff
    else if bg < prevOff then .error .enotnc
    else voffsPass wantRec rest (bg + len)

/-- ncmpio_NC_check_voffs (the in-definition-order variant that is compiled) -/
def checkVoffs (beginVar beginRec : Nat) (numRecVars : Nat) (vs : List (Bool × Nat × Nat)) : Except Err Unit :=
  if vs.length = 0 then .ok () else
  let numFix := vs.length - numRecVars
  let r : Except Err Unit :=
    if numFix = 0 then .ok () else
    match voffsPass false vs beginVar with
    | .error e => .error e
    | .ok prevOff => if beginRec < prevOff then .error .enotnc else .ok ()
  match r with
  | .error e => .error e
  | .ok () =>
    if numRecVars = 0 then .ok () else
    match voffsPass true vs beginRec with
    | .error e => .error e
    | .ok _ => .ok ()

/-- everything ncmpio_hdr_get_NC does after the var_list has been read -/
def postPass (h : Hdr) : Except Err Info :=
  let xsz := h.len
  match computeVarShape h xsz with
  | .error e => .error e
  | .ok (beginVar, beginRec, recsize, shapes, lens) =>
    let numRec := (shapes.filter isRecShape).length
    match checkVlens h.fmt.version ((h.vars.map (fun v => v.xtype.size)).zip shapes) with
    | .error e => .error e
    | .ok () =>
      match checkVoffs beginVar beginRec numRec
              ((shapes.map isRecShape).zip ((h.vars.map (fun v => v.begin)).zip lens)) with
      | .error e => .error e
      | .ok () =>
        .ok { xsz := xsz, beginVar := beginVar, beginRec := beginRec, recsize := recsize,
              numRecVars := numRec, shapes := shapes, lens := lens }

/-! ### ncmpio_hdr_get_NC -/

def hdf5Signature : Bytes := [0x89, 0x48, 0x44, 0x46, 0x0d, 0x0a, 0x1a, 0x0a]

/-- the magic test of ncmpio_hdr_get_NC on the first 12 bytes of the (zero-extended) file -/
def checkMagic (first12 : Bytes) : Except Err Fmt :=
  if first12.take 3 ≠ [0x43, 0x44, 0x46] then
    (if (first12.drop 4).take 8 = hdf5Signature then .error .enotnc3 else .error .enotnc)
  else
    let v := (first12.drop 3).take 1
    if v = [1] then .ok .cdf1 else if v = [2] then .ok .cdf2 else if v = [5] then .ok .cdf5 else .error .enotnc

/-- getbuf.chunk = PNETCDF_RNDUP(MAX(MIN_NC_XSZ+4, ncp->chunk), X_ALIGN) -/
def chunkOf (ncpChunk : Nat) : Nat := rndup (max (MIN_NC_XSZ + 4) ncpChunk) 4

/-- ncmpio_hdr_get_NC with ncp->chunk = `ncpChunk` -/
def decodeChunked (ncpChunk : Nat) (file : Bytes) : Except Err (Hdr × Info) :=
  let chunk := chunkOf ncpChunk
  -- first hdr_fetch: buffer empty (pos = base), offset 0
  let w0 := fetch file chunk { buf := zeros chunk, pos := 0, off := 0 }
  -- ncmpix_getn_text(magic, 4) straight from the buffer
  match checkMagic (w0.buf.take 12) with
  | .error e => .error e
  | .ok f =>
    match run (winR file chunk) (getBody f) { w0 with pos := 4 } with
    | .error e => .error e
    | .ok (h, _) =>
      match postPass h with
      | .error e => .error e
      | .ok info => .ok (h, info)

/-- the same with the whole file in view -/
def decodeWhole (file : Bytes) : Except Err (Hdr × Info) :=
  match checkMagic (ztake 12 file) with
  | .error e => .error e
  | .ok f =>
    match run flatR (getBody f) (file.drop 4) with
    | .error e => .error e
    | .ok (h, _) =>
      match postPass h with
      | .error e => .error e
      | .ok info => .ok (h, info)

/-! ### variant with the repair of finding FB2-1

  compute_var_shape as it stands returns early when there is no variable and leaves begin_var /
  begin_rec as calloc made them (0).  The repaired code sets begin_var = begin_rec = xsz in that
  case; nothing else changes (check_vlens / check_voffs return at once without variables).
  `fixed = false` is the code as it stands (`decodeWholeV false = decodeWhole`). -/

def fixInfo (fixed : Bool) (h : Hdr) (info : Info) : Info :=
  if fixed ∧ h.vars.length = 0 then { info with beginVar := info.xsz, beginRec := info.xsz } else info

def postPassV (fixed : Bool) (h : Hdr) : Except Err Info :=
  match postPass h with
  | .error e => .error e
  | .ok info => .ok (fixInfo fixed h info)

def decodeWholeV (fixed : Bool) (file : Bytes) : Except Err (Hdr × Info) :=
  match decodeWhole file with
  | .error e => .error e
  | .ok (h, info) => .ok (h, fixInfo fixed h info)

def decodeChunkedV (fixed : Bool) (ncpChunk : Nat) (file : Bytes) : Except Err (Hdr × Info) :=
  match decodeChunked ncpChunk file with
  | .error e => .error e
  | .ok (h, info) => .ok (h, fixInfo fixed h info)

end PnVerif.Header
