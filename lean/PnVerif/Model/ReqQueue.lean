/-
  C02: the pending nonblocking-request queues of `struct NC` and the code that moves entries in
  and out of them.

    ncmpio_igetput_varm / igetput_varn  (ncmpio_i_getput.m4, ncmpio_i_varn.m4)   -> `Q.post`
    extract_reqs                         (ncmpio_wait.c)                          -> `extract`
    req_commit, the post-I/O loops       (ncmpio_wait.c)                          -> `Q.cleanup`, `wait`
    ncmpio_cancel                        (ncmpio_wait.c)                          -> `cancel`
    ncmpio_inq_misc(nreqs)               (ncmpio_file_misc.c)                     -> `nreqs`

  One `Q` is the quadruple (lead list, non-lead list, numLead…Reqs, num…Reqs) plus max…ReqID; the
  C code has one copy of every loop for the put queue and one for the get queue, the model applies
  the same function to `nc.put` and `nc.get` (the harness drives both).  Arrays are lists holding
  exactly the entries below the C counter; the counters are carried separately and updated with
  the C arithmetic, so "counter = list length" is a theorem (`queue_inv`), not a definition.

  Fields of NC_lead_req that the queue code only carries along (varp, buf, xbuf, start[], nelems,
  buftype, …) are abstracted to an opaque `tag`; likewise for NC_req.  `status` is the index into
  the caller's statuses[] that the C pointer `lead->status` refers to.  The I/O itself (wait_getput)
  is not part of this model: `wait` returns the extracted non-lead lists that are handed to it.
-/
namespace PnVerif.ReqQueue

def NC_REQ_NULL : Int := -1
def NC_REQ_ALL : Int := -1
def NC_GET_REQ_ALL : Int := -2
def NC_PUT_REQ_ALL : Int := -3
def NC_NOERR : Int := 0
def NC_EINVAL : Int := -36
def NC_EINVAL_REQUEST : Int := -212

/-- the non-positional fields of NC_lead_req -/
structure Core where
  id : Int
  varBegin : Int            -- varp->begin, the key the sorted insertion compares against
  toFree : Bool := false    -- NC_REQ_TO_FREE
  abufIndex : Int := -1
  status : Option Nat := none
  maxRec : Int := -1        -- lead->max_rec (-1 for fixed-size variables)
  tag : Nat := 0
deriving Repr, DecidableEq, Inhabited

structure Lead where
  c : Core
  nonleadOff : Nat
  nonleadNum : Nat
deriving Repr, DecidableEq, Inhabited

/-- the payload of one NC_req: `nelems` and `xbuf` (as byte distance to the lead request's xbuf);
    start/count/stride are abstracted to `tag` -/
structure Sub where
  tag : Nat := 0
  nelems : Int := 0
  xoff : Int := 0
deriving Repr, DecidableEq, Inhabited

structure NonLead where
  leadOff : Nat
  s : Sub
deriving Repr, DecidableEq, Inhabited

structure Q where
  lead : List Lead := []
  nonlead : List NonLead := []
  numLead : Nat := 0          -- numLeadPutReqs / numLeadGetReqs
  numReqs : Nat := 0          -- numPutReqs / numGetReqs
  maxId : Int := 0            -- maxPutReqID / maxGetReqID
deriving Repr, DecidableEq, Inhabited

structure NC where
  put : Q := {}
  get : Q := {}
  numrecs : Int := 0          -- ncp->numrecs (in memory)
deriving Repr, DecidableEq, Inhabited

/-! ### splitting a record-variable request into one NC_req per record -/

/-- `ncmpio_add_record_requests(lead_list, reqs, num_recs, stride)`: reqs[0] is already filled in;
    reqs[i].nelems = reqs[0].nelems, reqs[i].xbuf = reqs[0].xbuf + i * reqs[0].nelems * xsz -/
def addRecordRequests (r0 : Sub) (xsz : Int) (numRecs : Nat) : List Sub :=
  (List.range numRecs).map (fun (i : Nat) => { r0 with xoff := r0.xoff + (i : Int) * (r0.nelems * xsz) })

/-- ncmpio_igetput_varm: `req->nelems /= count[0];` then add_record_requests -/
def splitVarm (tag : Nat) (nelems xsz : Int) (count0 : Nat) : List Sub :=
  if count0 > 1 then addRecordRequests { tag := tag, nelems := nelems / (count0 : Int), xoff := 0 } xsz count0
  else [{ tag := tag, nelems := nelems, xoff := 0 }]

/-- igetput_varn, sub-request with `nelems` elements whose data starts `xoff` bytes into xbuf:
    `req->nelems = req_nelems[i]`, `req->nelems /= counts[i][0]`, then add_record_requests -/
def splitVarn (tag : Nat) (nelems xoff xsz : Int) (count0 : Nat) : List Sub :=
  if count0 > 1 then addRecordRequests { tag := tag, nelems := nelems / (count0 : Int), xoff := xoff } xsz count0
  else [{ tag := tag, nelems := nelems, xoff := xoff }]

/-- what a correct split looks like: `k` pieces of `nelems / k` elements tiling the buffer range -/
def exactSplit (tag : Nat) (nelems xoff xsz : Int) (k : Nat) : List Sub :=
  (List.range k).map (fun (i : Nat) => { tag := tag, nelems := nelems / (k : Int), xoff := xoff + (i : Int) * (nelems / (k : Int) * xsz) })

/-! ### posting -/

/-- `for (i=numLead-1; i>=0; i--) { if (lead[i].varp->begin <= req_off) break; … }` : number of
    entries that stay in front of the new one -/
def insPos (lead : List Lead) (reqOff : Int) : Nat :=
  lead.length - (lead.reverse.takeWhile (fun l => decide (l.c.varBegin > reqOff))).length

/-- add one lead request with its non-lead requests (`subs` = their tags; one per record for a
    record variable, one per non-empty sub-request for varn).
    `first` = 0 for the put queue, 1 for the get queue.
    `sorted` = true where the C code does the sorted insertion (every put, and iget_varn), false
    where it appends (iget_var* : `SORT_LEAD_LIST_BASED_ON_VARID` is not defined). -/
def Q.post (q : Q) (first : Int) (sorted : Bool) (varBegin reqOff : Int) (abuf : Int) (tag : Nat)
    (subs : List Sub) (maxRec : Int := -1) : Q × Int :=
  let newN := subs.length
  let leadOff := if sorted then insPos q.lead reqOff else q.numLead
  let pos := if leadOff < q.numLead then
               (match q.lead[leadOff]? with | some l => l.nonleadOff | none => q.numReqs)
             else q.numReqs
  let id := if q.numLead = 0 then first else q.maxId + 2
  let newLead : Lead := { c := { id := id, varBegin := varBegin, abufIndex := abuf, maxRec := maxRec, tag := tag },
                          nonleadOff := pos, nonleadNum := newN }
  let lead' := q.lead.take leadOff ++ [newLead] ++
               (q.lead.drop leadOff).map (fun l => { l with nonleadOff := l.nonleadOff + newN })
  let nl' := q.nonlead.take pos ++ subs.map (fun s => (⟨leadOff, s⟩ : NonLead)) ++
             (q.nonlead.drop pos).map (fun r => { r with leadOff := r.leadOff + 1 })
  ({ lead := lead', nonlead := nl', numLead := q.numLead + 1, numReqs := q.numReqs + newN, maxId := id }, id)

/-! ### extract_reqs -/

/-- set NC_REQ_TO_FREE on every lead (the "ALL" paths) -/
def flagAll (lead : List Lead) : List Lead := lead.map (fun l => { l with c := { l.c with toFree := true } })

/-- the shortcut `for (i…) { lead[i].status = statuses + i; statuses[i] = NC_NOERR; }` -/
def slotByPosition : Nat → List Lead → List Lead
  | _, [] => []
  | i, l :: ls => { l with c := { l.c with status := some i } } :: slotByPosition (i + 1) ls

/-- subset path, first loop, one id: first lead that is not yet flagged and has this id -/
def markLead (slot : Option Nat) (rid : Int) : List Lead → Option (List Lead × Nat)
  | [] => none
  | l :: ls =>
    if l.c.toFree then (markLead slot rid ls).map (fun r => (l :: r.1, r.2))
    else if l.c.id = rid then
      some ({ l with c := { l.c with toFree := true,
                                     status := (match slot with | some i => some i | none => l.c.status) } } :: ls,
            l.nonleadNum)
    else (markLead slot rid ls).map (fun r => (l :: r.1, r.2))

/-- subset path, second loop, one id: first flagged lead with this id → its non-lead slice -/
def copyLead (rid : Int) (nonlead : List NonLead) : List Lead → Option (List NonLead)
  | [] => none
  | l :: ls => if l.c.toFree && decide (rid = l.c.id) then some ((nonlead.drop l.nonleadOff).take l.nonleadNum)
               else copyLead rid nonlead ls

/-- subset path, third loop: slide the slices of the leads that stay to the front.
    The C loop copies element-wise inside the array (`put_list[k++] = put_list[off++]`, k ≤ off);
    a slice is therefore always read before any of its cells is overwritten and the result is the
    concatenation of the surviving slices of the ORIGINAL array. -/
def compactGo (orig : List NonLead) : Nat → List Lead → List Lead × List NonLead
  | _, [] => ([], [])
  | k, l :: ls =>
    if l.c.toFree then
      let r := compactGo orig k ls
      (l :: r.1, r.2)
    else
      let r := compactGo orig (k + l.nonleadNum) ls
      ({ l with nonleadOff := k } :: r.1, (orig.drop l.nonleadOff).take l.nonleadNum ++ r.2)

def setAt (st : List Int) (i : Nat) (v : Int) : List Int := st.set i v

/-- what extract_reqs hands back -/
structure Ext where
  nc : NC
  ids : List Int                  -- req_ids[] after the call
  st : Option (List Int)          -- statuses[] after the call (none = NULL was passed)
  numRLead : Nat := 0
  numR : Nat := 0
  getList : List NonLead := []
  numWLead : Nat := 0
  numW : Nat := 0
  putList : List NonLead := []
  err : Int := 0
deriving Repr

/-- loop 1 of the subset path -/
def markLoop : Nat → List Int → Ext → Ext
  | _, [], e => e
  | i, rid :: rest, e =>
    let hasSt := e.st.isSome
    let slot := if hasSt then some i else none
    if rid = NC_REQ_NULL then
      markLoop (i + 1) rest { e with st := e.st.map (fun s => setAt s i NC_NOERR) }
    else if rid % 2 = 0 then
      match markLead slot rid e.nc.put.lead with
      | some (ls, n) =>
        markLoop (i + 1) rest { e with nc := { e.nc with put := { e.nc.put with lead := ls } },
                                       st := e.st.map (fun s => setAt s i NC_NOERR),
                                       numWLead := e.numWLead + 1, numW := e.numW + n }
      | none =>
        markLoop (i + 1) rest { e with st := e.st.map (fun s => setAt s i NC_EINVAL_REQUEST),
                                       err := if e.err = NC_NOERR then NC_EINVAL_REQUEST else e.err }
    else
      match markLead slot rid e.nc.get.lead with
      | some (ls, n) =>
        markLoop (i + 1) rest { e with nc := { e.nc with get := { e.nc.get with lead := ls } },
                                       st := e.st.map (fun s => setAt s i NC_NOERR),
                                       numRLead := e.numRLead + 1, numR := e.numR + n }
      | none =>
        markLoop (i + 1) rest { e with st := e.st.map (fun s => setAt s i NC_EINVAL_REQUEST),
                                       err := if e.err = NC_NOERR then NC_EINVAL_REQUEST else e.err }

/-- loop 2 of the subset path: returns (req_ids after, put slices, get slices) -/
def copyLoop (nc : NC) : List Int → List Int × List NonLead × List NonLead
  | [] => ([], [], [])
  | rid :: rest =>
    let r := copyLoop nc rest
    if rid = NC_REQ_NULL then (rid :: r.1, r.2.1, r.2.2)
    else if rid % 2 = 0 then
      match copyLead rid nc.put.nonlead nc.put.lead with
      | some sl => (NC_REQ_NULL :: r.1, sl ++ r.2.1, r.2.2)
      | none => (rid :: r.1, r.2.1, r.2.2)
    else
      match copyLead rid nc.get.nonlead nc.get.lead with
      | some sl => (NC_REQ_NULL :: r.1, r.2.1, sl ++ r.2.2)
      | none => (rid :: r.1, r.2.1, r.2.2)

/-- loop 3 + the counter update + realloc/free of one queue (`if (*num_w_reqs) { … }`) -/
def Q.compact (q : Q) (n : Nat) : Q :=
  if n = 0 then q else
  let r := compactGo q.nonlead 0 q.lead
  let cnt := q.numReqs - n
  let arr := (r.2 ++ q.nonlead.drop r.2.length).take cnt
  { q with lead := r.1, nonlead := if cnt = 0 then [] else arr, numReqs := cnt }

/-- hand the whole non-lead list of a queue to the caller (the ALL paths) -/
def Q.takeAll (q : Q) : Q := { q with lead := flagAll q.lead, nonlead := [], numReqs := 0 }

def nullIds (ids : List Int) : List Int := ids.map (fun _ => NC_REQ_NULL)
def zeroFirst : Nat → List Int → List Int
  | 0, s => s
  | _, [] => []
  | n + 1, _ :: s => NC_NOERR :: zeroFirst n s

/-- The model follows the source tree in three places where a repair of a known defect changes the
    code (the check finds out by replaying the witnesses which variant the tree has and tells the
    driver).  All fields `false` = the code as found (pinned commit).
      numrecsAllLeads   : req_commit scans `ncp->numLeadPutReqs` leads (not `num_w_lead_reqs`) for newnumrecs   (F21)
      clearOnRefusal    : extract_reqs clears NC_REQ_TO_FREE / status on every lead before returning an error   (F19)
      shortcutChecksIds : the "same as …_ALL" shortcuts also require req_ids[] = the queue's ids in queue order  (F4) -/
structure Variant where
  numrecsAllLeads : Bool := false
  clearOnRefusal : Bool := false
  shortcutChecksIds : Bool := false
deriving Repr, DecidableEq, Inhabited

def idsOf (lead : List Lead) : List Int := lead.map (fun l => l.c.id)

/-- condition of the shortcut "this is the same as NC_PUT_REQ_ALL" -/
def sc1 (V : Variant) (nc : NC) (numReqs : Int) (ids : List Int) : Prop :=
  nc.get.numReqs = 0 ∧ numReqs = (nc.put.numLead : Int) ∧ (V.shortcutChecksIds = true → idsOf nc.put.lead = ids)
/-- "this is the same as NC_GET_REQ_ALL" -/
def sc2 (V : Variant) (nc : NC) (numReqs : Int) (ids : List Int) : Prop :=
  nc.put.numReqs = 0 ∧ numReqs = (nc.get.numLead : Int) ∧ (V.shortcutChecksIds = true → idsOf nc.get.lead = ids)
/-- "this is the same as NC_REQ_ALL" -/
def sc3 (V : Variant) (nc : NC) (numReqs : Int) (ids : List Int) (st : Option (List Int)) : Prop :=
  numReqs = ((nc.put.numLead + nc.get.numLead : Nat) : Int) ∧ st.isNone = true ∧
  (V.shortcutChecksIds = true → idsOf nc.put.lead ++ idsOf nc.get.lead = ids)

instance (V : Variant) (nc : NC) (n : Int) (ids : List Int) : Decidable (sc1 V nc n ids) := by unfold sc1; infer_instance
instance (V : Variant) (nc : NC) (n : Int) (ids : List Int) : Decidable (sc2 V nc n ids) := by unfold sc2; infer_instance
instance (V : Variant) (nc : NC) (n : Int) (ids : List Int) (st : Option (List Int)) : Decidable (sc3 V nc n ids st) := by
  unfold sc3; infer_instance

/-- the repaired refusal path: `fClr(flag, NC_REQ_TO_FREE); status = NULL;` on every lead -/
def clearMarks (lead : List Lead) : List Lead :=
  lead.map (fun l => { l with c := { l.c with toFree := false, status := none } })

/-- `extract_reqs(ncp, num_reqs, req_ids, statuses, …)`.  `ids.length = num_reqs` when
    `num_reqs ≥ 0`; for the three negative constants `ids`/`st` are ignored as in the C code. -/
def extract (nc : NC) (numReqs : Int) (ids : List Int) (st : Option (List Int)) (V : Variant := {}) : Ext :=
  let base : Ext := { nc := nc, ids := ids, st := st }
  if numReqs = NC_REQ_ALL ∨ numReqs = NC_GET_REQ_ALL ∨ numReqs = NC_PUT_REQ_ALL then
    let e1 : Ext := if numReqs = NC_PUT_REQ_ALL ∨ numReqs = NC_REQ_ALL then
        { base with nc := { base.nc with put := nc.put.takeAll }, numWLead := nc.put.numLead,
                    numW := nc.put.numReqs, putList := nc.put.nonlead }
      else base
    if numReqs = NC_GET_REQ_ALL ∨ numReqs = NC_REQ_ALL then
      { e1 with nc := { e1.nc with get := nc.get.takeAll }, numRLead := nc.get.numLead,
                numR := nc.get.numReqs, getList := nc.get.nonlead }
    else e1
  else if sc1 V nc numReqs ids then
    -- "this is the same as NC_PUT_REQ_ALL"
    let pl := if st.isSome then slotByPosition 0 nc.put.lead else nc.put.lead
    { base with ids := nullIds ids, st := st.map (zeroFirst nc.put.numLead),
                nc := { nc with put := { nc.put with lead := flagAll pl, nonlead := [], numReqs := 0 } },
                numWLead := nc.put.numLead, numW := nc.put.numReqs, putList := nc.put.nonlead }
  else if sc2 V nc numReqs ids then
    -- "this is the same as NC_GET_REQ_ALL"
    let gl := if st.isSome then slotByPosition 0 nc.get.lead else nc.get.lead
    { base with ids := nullIds ids, st := st.map (zeroFirst nc.get.numLead),
                nc := { nc with get := { nc.get with lead := flagAll gl, nonlead := [], numReqs := 0 } },
                numRLead := nc.get.numLead, numR := nc.get.numReqs, getList := nc.get.nonlead }
  else if sc3 V nc numReqs ids st then
    -- "this is the same as NC_REQ_ALL"
    { base with ids := nullIds ids,
                nc := { nc with put := nc.put.takeAll, get := nc.get.takeAll },
                numWLead := nc.put.numLead, numW := nc.put.numReqs, putList := nc.put.nonlead,
                numRLead := nc.get.numLead, numR := nc.get.numReqs, getList := nc.get.nonlead }
  else
    let e := markLoop 0 ids base
    if e.err ≠ NC_NOERR then          -- `if (status != NC_NOERR) return status;` (as found: the flags stay set!)
      (if V.clearOnRefusal then
         { e with nc := { e.nc with put := { e.nc.put with lead := clearMarks e.nc.put.lead },
                                    get := { e.nc.get with lead := clearMarks e.nc.get.lead } } }
       else e)
    else
      let c := copyLoop e.nc ids
      { e with ids := c.1, putList := c.2.1, getList := c.2.2,
               nc := { e.nc with put := e.nc.put.compact e.numW, get := e.nc.get.compact e.numR } }

/-! ### req_commit after the I/O -/

/-- `for (k=0; k<num; k++) list[off++].lead_off = j;` -/
def setLeadOff (nl : List NonLead) (off num j : Nat) : List NonLead :=
  nl.take off ++ ((nl.drop off).take num).map (fun r => { r with leadOff := j }) ++ nl.drop (off + num)

/-- the post-I/O loop over one lead list: drop flagged leads, slide the others to the front and
    renumber `lead_off` of their non-lead requests.  Returns (kept leads, non-lead list, freed leads). -/
def cleanupGo : Nat → Nat → List Lead → List NonLead → List Lead × List NonLead × List Lead
  | _, _, [], nl => ([], nl, [])
  | i, j, l :: ls, nl =>
    if l.c.toFree then
      let r := cleanupGo (i + 1) j ls nl
      (r.1, r.2.1, l :: r.2.2)
    else
      let nl' := if j < i then setLeadOff nl l.nonleadOff l.nonleadNum j else nl
      let r := cleanupGo (i + 1) (j + 1) ls nl'
      (l :: r.1, r.2.1, r.2.2)

/-- `if (num_x_lead_reqs > 0) { … }` of req_commit; second component = the completed leads -/
def Q.cleanup (q : Q) (numXLead : Nat) : Q × List Lead :=
  if numXLead = 0 then (q, []) else
  let r := cleanupGo 0 0 q.lead q.nonlead
  let j := r.1.length
  ({ q with lead := r.1, nonlead := if j = 0 then [] else r.2.1, numLead := j }, r.2.2)

/-- `newnumrecs` of req_commit: `for (i=0; i<num_w_lead_reqs; i++)` over put_lead_list[i] — the bound
    is the number of EXTRACTED lead requests, the index runs over the queue from its start -/
def newNumrecs (numrecs : Int) (numWLead : Nat) (lead : List Lead) : Int :=
  (lead.take numWLead).foldl (fun acc l =>
    if l.c.maxRec < 0 ∨ ¬ l.c.toFree then acc          -- !IS_RECVAR (max_rec = -1) or not NC_REQ_TO_FREE
    else if acc < l.c.maxRec then l.c.maxRec else acc) numrecs

/-- result of one ncmpi_wait / ncmpi_wait_all on one process -/
structure WaitRes where
  nc : NC
  ids : List Int
  st : Option (List Int)
  err : Int
  ioPut : List NonLead := []      -- handed to wait_getput(NC_REQ_WR)
  ioGet : List NonLead := []      -- handed to wait_getput(NC_REQ_RD)
  donePut : List Lead := []       -- leads freed by the post-I/O loop
  doneGet : List Lead := []
deriving Repr

/-- req_commit without the I/O and without MPI (single process view; the error exchange of the
    collective path only matters when another rank fails) -/
def wait (nc : NC) (numReqs : Int) (ids : List Int) (st : Option (List Int)) (V : Variant := {}) : WaitRes :=
  let e := extract nc numReqs ids st V
  if e.err ≠ NC_NOERR then { nc := e.nc, ids := e.ids, st := e.st, err := e.err }
  else
    let nn := newNumrecs nc.numrecs (if V.numrecsAllLeads then e.nc.put.numLead else e.numWLead) e.nc.put.lead
    -- wait_getput(NC_REQ_WR) runs when this process has write requests and raises ncp->numrecs
    let numrecs' := if e.numW > 0 ∧ nc.numrecs < nn then nn else nc.numrecs
    let p := e.nc.put.cleanup e.numWLead
    let g := e.nc.get.cleanup e.numRLead
    { nc := { put := p.1, get := g.1, numrecs := numrecs' }, ids := e.ids, st := e.st, err := NC_NOERR,
      ioPut := e.putList, ioGet := e.getList, donePut := p.2, doneGet := g.2 }

/-! ### ncmpio_cancel -/

def findLead (rid : Int) : Nat → List Lead → Option (Nat × Lead)
  | _, [] => none
  | j, l :: ls => if l.c.id = NC_REQ_NULL ∨ l.c.id ≠ rid then findLead rid (j + 1) ls else some (j, l)

/-- remove lead `j` (= `l`) and its non-lead slice, shifting what follows -/
def Q.remove (q : Q) (j : Nat) (l : Lead) : Q :=
  let nl := q.nonlead.take l.nonleadOff ++
            (q.nonlead.drop (l.nonleadOff + l.nonleadNum)).map (fun r => { r with leadOff := r.leadOff - 1 })
  let k := l.nonleadOff + (q.numReqs - (l.nonleadOff + l.nonleadNum))
  let ld := q.lead.take j ++
            (q.lead.drop (j + 1)).map (fun x => { x with nonleadOff := x.nonleadOff - l.nonleadNum })
  { q with lead := ld, nonlead := nl, numReqs := k, numLead := q.numLead - 1 }

structure CancelRes where
  nc : NC
  ids : List Int
  st : Option (List Int)
  err : Int
  cancelled : List Lead := []
deriving Repr

def cancelLoop : Nat → List Int → CancelRes → CancelRes
  | _, [], r => r
  | i, rid :: rest, r =>
    let r1 := { r with st := r.st.map (fun s => setAt s i NC_NOERR) }
    if rid = NC_REQ_NULL then cancelLoop (i + 1) rest { r1 with ids := r1.ids ++ [rid] }
    else if rid % 2 = 1 then
      match findLead rid 0 r1.nc.get.lead with
      | some (j, l) =>
        cancelLoop (i + 1) rest { r1 with nc := { r1.nc with get := r1.nc.get.remove j l },
                                          ids := r1.ids ++ [NC_REQ_NULL], cancelled := r1.cancelled ++ [l] }
      | none =>
        cancelLoop (i + 1) rest { r1 with ids := r1.ids ++ [rid],
                                          st := r1.st.map (fun s => setAt s i NC_EINVAL_REQUEST),
                                          err := if r1.err = NC_NOERR then NC_EINVAL_REQUEST else r1.err }
    else
      match findLead rid 0 r1.nc.put.lead with
      | some (j, l) =>
        cancelLoop (i + 1) rest { r1 with nc := { r1.nc with put := r1.nc.put.remove j l },
                                          ids := r1.ids ++ [NC_REQ_NULL], cancelled := r1.cancelled ++ [l] }
      | none =>
        cancelLoop (i + 1) rest { r1 with ids := r1.ids ++ [rid],
                                          st := r1.st.map (fun s => setAt s i NC_EINVAL_REQUEST),
                                          err := if r1.err = NC_NOERR then NC_EINVAL_REQUEST else r1.err }

/-- free the arrays of an emptied queue: `if (numLead == 0) { free(lead_list); free(list); }` -/
def Q.freeIfEmpty (q : Q) : Q := if q.numLead = 0 then { q with lead := [], nonlead := [] } else q

def Q.clear (q : Q) : Q := { q with lead := [], nonlead := [], numLead := 0, numReqs := 0 }

def cancel (nc : NC) (numReq : Int) (ids : List Int) (st : Option (List Int)) : CancelRes :=
  if numReq = 0 then { nc := nc, ids := ids, st := st, err := NC_NOERR }
  else if numReq < NC_PUT_REQ_ALL then { nc := nc, ids := ids, st := st, err := NC_EINVAL }
  else
    let nc1 : NC := if numReq = NC_GET_REQ_ALL ∨ numReq = NC_REQ_ALL then { nc with get := nc.get.clear } else nc
    let c1 := if numReq = NC_GET_REQ_ALL ∨ numReq = NC_REQ_ALL then nc.get.lead else []
    let nc2 : NC := if numReq = NC_PUT_REQ_ALL ∨ numReq = NC_REQ_ALL then { nc1 with put := nc1.put.clear } else nc1
    let c2 := if numReq = NC_PUT_REQ_ALL ∨ numReq = NC_REQ_ALL then nc.put.lead else []
    if numReq < 0 then { nc := nc2, ids := ids, st := st, err := NC_NOERR, cancelled := c1 ++ c2 }
    else
      let r := cancelLoop 0 ids { nc := nc2, ids := [], st := st, err := NC_NOERR }
      { r with nc := { r.nc with put := r.nc.put.freeIfEmpty, get := r.nc.get.freeIfEmpty } }

/-- ncmpi_inq_nreqs -/
def nreqs (nc : NC) : Nat := nc.get.numLead + nc.put.numLead

/-! ### abstract view: the pending requests a queue stands for -/

structure Entry where
  c : Core
  subs : List Sub           -- its non-lead requests, in queue order
deriving Repr, DecidableEq, Inhabited

def Q.view (q : Q) : List Entry :=
  q.lead.map (fun l => ⟨l.c, ((q.nonlead.drop l.nonleadOff).take l.nonleadNum).map (fun r => r.s)⟩)

end PnVerif.ReqQueue
