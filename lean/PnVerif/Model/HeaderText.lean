import PnVerif.Model.Header
/-
  Text form of byte strings and schemas for the line-protocol drivers (C03, C04).  Not part of any
  theorem; exercised by every harness run (both directions).

    bytes   : lower-case hex, "-" for the empty string
    schema  : fmt numrecs  ndims {name size}*  ngatts {att}*  nvars {var}*
    att     : name type nelems valuehex
    var     : name ndims {dimid}* natts {att}* type vsize begin
-/
namespace PnVerif.HeaderText
open PnVerif.Spec PnVerif.Header

def hexDigit (n : Nat) : Char :=
  if n < 10 then Char.ofNat (48 + n) else Char.ofNat (87 + n)

def toHex (b : Bytes) : String :=
  if b.isEmpty then "-" else
  String.ofList (b.foldr (fun x acc => hexDigit (x.toNat / 16) :: hexDigit (x.toNat % 16) :: acc) [])

def hexVal (c : Char) : Option Nat :=
  if '0' ≤ c ∧ c ≤ '9' then some (c.toNat - 48)
  else if 'a' ≤ c ∧ c ≤ 'f' then some (c.toNat - 87)
  else if 'A' ≤ c ∧ c ≤ 'F' then some (c.toNat - 55)
  else none

def ofHexAux : List Char → List UInt8 → Option Bytes
  | [], acc => some acc.reverse
  | [_], _ => none
  | a :: b :: rest, acc =>
    match hexVal a, hexVal b with
    | some x, some y => ofHexAux rest (UInt8.ofNat (x * 16 + y) :: acc)
    | _, _ => none

def ofHex (s : String) : Option Bytes :=
  if s == "-" then some [] else ofHexAux s.toList []

def fmtCode (f : Fmt) : Nat := f.version
def fmtOf : Nat → Option Fmt
  | 1 => some .cdf1 | 2 => some .cdf2 | 5 => some .cdf5 | _ => none

def showAtt (a : Att) : List String :=
  [toHex a.name, toString a.xtype.code, toString a.nelems, toHex a.xvalue]

def showVar (v : Var) : List String :=
  [toHex v.name, toString v.dimids.length] ++ v.dimids.map toString ++
  [toString v.atts.length] ++ v.atts.flatMap showAtt ++
  [toString v.xtype.code, toString v.vsize, toString v.begin]

def showSchema (h : Schema) : String :=
  String.intercalate " " (
    [toString (fmtCode h.fmt), toString h.numrecs, toString h.dims.length] ++
    h.dims.flatMap (fun d => [toHex d.name, toString d.size]) ++
    [toString h.gatts.length] ++ h.gatts.flatMap showAtt ++
    [toString h.vars.length] ++ h.vars.flatMap showVar)

/-! parser: token list → value × rest -/
abbrev TP (α : Type) := List String → Option (α × List String)

def tNat : TP Nat
  | [] => none
  | t :: r => t.toNat?.map (fun n => (n, r))

def tHex : TP Bytes
  | [] => none
  | t :: r => (ofHex t).map (fun b => (b, r))

def tMany {α : Type} (p : TP α) : Nat → TP (List α)
  | 0, ts => some ([], ts)
  | n + 1, ts => do
    let (x, r) ← p ts
    let (xs, r') ← tMany p n r
    some (x :: xs, r')

def tAtt : TP Att := fun ts => do
  let (nm, r) ← tHex ts
  let (tc, r) ← tNat r
  let t ← NcType.ofCode tc
  let (n, r) ← tNat r
  let (v, r) ← tHex r
  some ({ name := nm, xtype := t, nelems := n, xvalue := v }, r)

def tDim : TP Dim := fun ts => do
  let (nm, r) ← tHex ts
  let (sz, r) ← tNat r
  some ({ name := nm, size := sz }, r)

def tVar : TP Var := fun ts => do
  let (nm, r) ← tHex ts
  let (nd, r) ← tNat r
  let (ids, r) ← tMany tNat nd r
  let (na, r) ← tNat r
  let (as, r) ← tMany tAtt na r
  let (tc, r) ← tNat r
  let t ← NcType.ofCode tc
  let (vs, r) ← tNat r
  let (bg, r) ← tNat r
  some ({ name := nm, dimids := ids, atts := as, xtype := t, vsize := vs, begin := bg }, r)

def tSchema : TP Schema := fun ts => do
  let (fc, r) ← tNat ts
  let f ← fmtOf fc
  let (nr, r) ← tNat r
  let (nd, r) ← tNat r
  let (ds, r) ← tMany tDim nd r
  let (ng, r) ← tNat r
  let (gs, r) ← tMany tAtt ng r
  let (nv, r) ← tNat r
  let (vs, r) ← tMany tVar nv r
  some ({ fmt := f, numrecs := nr, dims := ds, gatts := gs, vars := vs }, r)

def tokens (line : String) : List String :=
  (line.splitOn " ").filter (fun t => t != "" && t != "\n")

end PnVerif.HeaderText
