import PnVerif.Model.Mode
/-
  C14 — the DOCUMENTED mode automaton of an open PnetCDF file and the documented error precedence,
  as one rule table.  Written from the documentation, not from the code:

    doc/pnetcdf-api/pnetcdf-api.tex §"Data Mode Functions": enddef/open leave the file in collective
        data mode; begin/end_indep_data switch; close and redef also leave independent data mode; it is
        illegal to enter independent data mode while in define mode.
    man/pnetcdf.m4: redef/enddef/abort/close (close in define mode performs enddef; abort after create
        and before enddef makes the dataset disappear; abort after redef drops the new definitions);
        def_dim/def_var "must be in define mode"; put/get "must be in data mode"; set_fill "must be
        done in define mode".
    doc/README.consistency.md: rename_*/put_att are allowed in data mode when nothing grows; sync may be
        called in either data mode.
    src/include/pnetcdf.h (error code meanings): NC_EPERM write to read-only, NC_EINDEFINE operation
        not allowed in define mode, NC_ENOTINDEFINE operation not allowed in data mode, NC_ENOTINDEP
        not allowed in collective data mode, NC_EINDEP not allowed in independent data mode,
        NC_EPENDING pending nonblocking request found at close, NC_ENULLABUF / NC_EPREVATTACHBUF /
        NC_EPENDINGBPUT / NC_ENULLBUF for the attached buffer.
    DEVELOPER_NOTES.md "NC error code precedence": first the errors about the ncid (NC_EBADID, NC_EPERM,
        NC_EINDEFINE …), then the varid (NC_ENOTVAR …), then the rest; put att: NC_EBADID, NC_EPERM,
        NC_ENOTVAR, NC_EBADNAME, NC_EBADTYPE, NC_ECHAR, NC_EINVAL, NC_ENOTINDEFINE; put/get var:
        NC_EBADID, NC_EPERM, NC_EINDEFINE, NC_ENOTVAR, NC_ECHAR, NC_EINVALCOORDS …
    API header comments (since 1.2.0 / 1.9.0 begin/end_indep_data are no-ops in the mode they lead to;
        nonblocking posts and cancel are legal in define mode since 1.7.0; wait is an independent and
        wait_all a collective data-mode call; fill_var_rec "is collective and can only be called in
        collective data mode").

  Where the documents fix no relative order of two argument errors (marked "undocumented order")
  the table lists them in the order the implementation tests them; nothing in C14 hinges on those.
-/
namespace PnVerif.ModeSpec
open PnVerif.Mode

inductive Mode | define | coll | indep
deriving DecidableEq, Repr, Inhabited

/-- abstract state of one ncid: exactly one mode, read-only or not, newly created or not -/
structure AState where
  opened    : Bool
  mode      : Mode
  rdonly    : Bool
  isNew     : Bool     -- made by ncmpi_create and not yet through its first enddef
  recDef    : Bool
  recCommit : Bool     -- record variables existed at the last enddef / at open
  abuf      : Bool
  nGet      : Nat
  nPut      : Nat
  nBput     : Nat
deriving DecidableEq, Repr, Inhabited

def aclosed : AState :=
  { opened := false, mode := .coll, rdonly := false, isNew := false, recDef := false, recCommit := false,
    abuf := false, nGet := 0, nPut := 0, nBput := 0 }

/-- in which modes an API is permitted -/
inductive Where | anyMode | defineOnly | dataOnly | collOnly | indepOnly
deriving DecidableEq, Repr

/-- the documented error of an API called in a mode where it is not permitted -/
def modeErr : Where → Mode → Option Err
  | .anyMode,    _       => none
  | .defineOnly, .define => none
  | .defineOnly, _       => some .enotindefine
  | .dataOnly,   .define => some .eindefine
  | .dataOnly,   _       => none
  | .collOnly,   .define => some .eindefine
  | .collOnly,   .coll   => none
  | .collOnly,   .indep  => some .eindep
  | .indepOnly,  .define => some .eindefine
  | .indepOnly,  .indep  => none
  | .indepOnly,  .coll   => some .enotindep

/-- one row of the rule table -/
structure Rule where
  writes : Bool                      -- modifies the dataset: NC_EPERM on a read-only file
  wh     : Where
  args   : List (Bool × Err) := []   -- (applies?, code) in precedence order: varid, name, type, values, object
  late   : Option Err := none        -- a mode rule that depends on the object found (growing in data mode)

def firstErr : List (Bool × Err) → Option Err
  | [] => none
  | (b, e) :: r => if b then some e else firstErr r

def vNoGlobal (v : VarArg) : List (Bool × Err) := [(v == .global, .eglobal), (v == .bad, .enotvar)]
def vOrGlobal (v : VarArg) : List (Bool × Err) := [(v == .bad, .enotvar)]

/-- bytes per element of a type class (CDF format specification) -/
def elemSize : XT → Nat
  | .x1 => 1 | .x2 => 2 | .x4 => 4 | .x8 => 8

/-- header space of an attribute's values: `nelems` elements, padded to a 4-byte boundary
    (CDF format specification: "values ... padded to 4-byte boundary") -/
def headerBytes (t : XT) (n : Nat) : Nat := (elemSize t * n + 3) / 4 * 4

/-- growing / creating something in the header is only possible in define mode -/
def growsInData (grows : Bool) (m : Mode) : Option Err :=
  if grows && m != .define then some .enotindefine else none

def rule (a : AState) : Call → Rule
  | .enddef            => { writes := false, wh := .defineOnly }
  | .enddefArgs neg    => { writes := false, wh := .defineOnly, args := [(neg, .einval)] }
  | .redef             => { writes := true,  wh := .dataOnly }
  | .beginIndep        => { writes := false, wh := .dataOnly }
  | .endIndep          => { writes := false, wh := .dataOnly }
  | .close             => { writes := false, wh := .anyMode }
  | .abort             => { writes := false, wh := .anyMode }
  -- define-mode family.  A read-only file is never in define mode, so these report
  -- NC_ENOTINDEFINE there (def_dim/def_var/def_var_fill have no NC_EPERM rule of their own)
  | .defDim inUse      => { writes := false, wh := .defineOnly, args := [(inUse, .enameinuse)] }
  | .defVar inUse _    => { writes := false, wh := .defineOnly, args := [(inUse, .enameinuse)] }
  | .defVarFill v      => { writes := false, wh := .defineOnly, args := vNoGlobal v }
  | .setFill           => { writes := true,  wh := .defineOnly }
  | .delAtt v nb ex    => { writes := true,  wh := .defineOnly,
                            args := vOrGlobal v ++ [(nb, .ebadname), (!ex, .enotatt)] }
  -- attributes and renaming: any mode, but nothing may grow in data mode
  | .putAtt v nb tb cm nl ex ot on nt nn =>    -- "larger than the old one": needs more header space
                          { writes := true,  wh := .anyMode,
                            args := vOrGlobal v ++ [(nb, .ebadname), (tb, .ebadtype), (cm, .echar), (nl, .einval)],
                            late := growsInData (!ex || headerBytes nt nn > headerBytes ot on) a.mode }
  | .getAtt v nb ex    => { writes := false, wh := .anyMode,
                            args := vOrGlobal v ++ [(nb, .ebadname), (!ex, .enotatt)] }
  | .copyAtt vib vob nb sex dex st sn dt dn =>
                          { writes := true,  wh := .anyMode,
                            args := [(vib, .enotvar), (vob, .enotvar), (nb, .ebadname), (!sex, .enotatt)],
                            late := growsInData (!dex || headerBytes st sn > headerBytes dt dn) a.mode }
  | .renameAtt v nb ex inUse oldLen newLen =>  -- "if the new name is longer than the old name"
                          { writes := true,  wh := .anyMode,
                            args := vOrGlobal v ++ [(nb, .ebadname), (!ex, .enotatt), (inUse, .enameinuse)],
                            late := growsInData (oldLen < newLen) a.mode }
  | .renameVar v nb inUse oldLen newLen =>
                          { writes := true,  wh := .anyMode,
                            args := vNoGlobal v ++ [(nb, .ebadname), (inUse, .enameinuse)],
                            late := growsInData (oldLen < newLen) a.mode }
  | .renameDim nb db inUse oldLen newLen =>                      -- name before dimid: undocumented order
                          { writes := true,  wh := .anyMode,
                            args := [(nb, .ebadname), (db, .ebaddim), (inUse, .enameinuse)],
                            late := growsInData (oldLen < newLen) a.mode }
  -- blocking data access: collective APIs in collective data mode, independent in independent
  -- a zero-length request is subject to the same ncid / permission / mode / varid rules; varn with num == 0
  -- has no start/count to test (undocumented detail, as implemented)
  | .rw isPut coll v text cb varn zl =>
                          { writes := isPut, wh := if coll then .collOnly else .indepOnly,
                            args := vNoGlobal v ++ [(text != (v == .chr), .echar), (cb && !(varn && zl), .einvalcoords)] }
  -- nonblocking posts: any mode; bput needs an attached buffer (undocumented order w.r.t. coordinates)
  | .post k v text cb varn zl =>
                          { writes := k != .iget, wh := .anyMode,
                            args := vNoGlobal v ++ [(text != (v == .chr), .echar),
                                                    (k == .bput && !a.abuf && !(varn && zl), .enullabuf),
                                                    (cb && !(varn && zl), .einvalcoords)] }
  | .wait coll _       => { writes := false, wh := if coll then .collOnly else .indepOnly }
  | .cancel _          => { writes := false, wh := .anyMode }
  | .sync              => { writes := false, wh := .dataOnly }
  -- sync_numrecs writes the record count: needs write permission when there are record variables
  | .syncNumrecs       => { writes := a.recCommit, wh := .dataOnly }
  | .flush             => { writes := false, wh := .anyMode }
  -- fill_var_rec: "collective, can only be called in collective data mode".  NC_EINDEFINE is an
  -- ncid-level error and comes first; NC_EINDEP after the argument errors is an undocumented order
  | .fillVarRec v      => { writes := true,  wh := .dataOnly,
                            args := vNoGlobal v ++ [(v != .recv, .enotrecvar)],
                            late := if a.mode == .indep then some .eindep else none }
  | .attach sizePos    => { writes := false, wh := .anyMode,
                            args := [(!sizePos, .enullbuf), (a.abuf, .eprevattachbuf)] }
  | .detach            => { writes := false, wh := .anyMode,
                            args := [(!a.abuf, .enullabuf), (a.nBput > 0, .ependingbput)] }
  | .inq               => { writes := false, wh := .anyMode }
  | .inqVar v          => { writes := false, wh := .anyMode, args := vNoGlobal v }
  | .inqNreqs          => { writes := false, wh := .anyMode }
  | .inqBuf            => { writes := false, wh := .anyMode, args := [(!a.abuf, .enullabuf)] }

/-- the documented precedence: ncid, permission, mode, arguments, object-dependent mode rule -/
def specErr (a : AState) (c : Call) : Err :=
  if !a.opened then .ebadid
  else
    let r := rule a c
    if r.writes && a.rdonly then .eperm
    else match modeErr r.wh a.mode with
      | some e => e
      | none => match firstErr r.args with
        | some e => e
        | none => match r.late with
          | some e => e
          | none => .noerr

structure AOut where
  st  : AState
  err : Err
  del : Bool := false
  val : Nat := 0
deriving DecidableEq, Repr, Inhabited

/-- effect of a PERMITTED call on the abstract state (the automaton's transitions) -/
def effect (a : AState) : Call → AState
  | .enddef | .enddefArgs _ => { a with mode := .coll, isNew := false, recCommit := a.recDef }
  | .redef       => { a with mode := .define }
  | .beginIndep  => { a with mode := .indep }
  | .endIndep    => { a with mode := .coll }
  | .defVar _ isRec => { a with recDef := a.recDef || isRec }
  | .post .iget _ _ _ _ zl => if zl then a else { a with nGet := a.nGet + 1 }   -- zero-length: nothing is queued
  | .post .iput _ _ _ _ zl => if zl then a else { a with nPut := a.nPut + 1 }
  | .post .bput _ _ _ _ zl => if zl then a else { a with nPut := a.nPut + 1, nBput := a.nBput + 1 }
  | .wait _ zero => if zero then a else { a with nGet := 0, nPut := 0, nBput := 0 }
  | .cancel zero => if zero then a else { a with nGet := 0, nPut := 0, nBput := 0 }
  | .attach _    => { a with abuf := true }
  | .detach      => { a with abuf := false }
  | _            => a

def specStep (a : AState) (c : Call) : AOut :=
  if !a.opened then { st := a, err := .ebadid }
  else match c with
  -- close and abort always release the ncid; both report requests that were still pending (NC_EPENDING:
  -- the requests are cancelled, the call has otherwise done its work)
  | .close => { st := aclosed, err := if a.nGet + a.nPut > 0 then .epending else .noerr }
  | .abort => { st := aclosed, err := if a.nGet + a.nPut > 0 then .epending else .noerr, del := a.isNew }
  | _ =>
    let e := specErr a c
    if e != .noerr then { st := a, err := e }               -- a rejected call has no effect
    else { st := effect a c, err := .noerr, val := (if c == .inqNreqs then a.nGet + a.nPut else 0) }

/-- the codes that mean "not permitted in this mode / with this permission / on this ncid" -/
def isRejection (e : Err) : Bool :=
  e == .ebadid || e == .eperm || e == .eindefine || e == .enotindefine || e == .eindep || e == .enotindep

/-- calls that may change the mode component -/
def isModeCall : Call → Bool
  | .enddef | .enddefArgs _ | .redef | .beginIndep | .endIndep | .close | .abort => true
  | _ => false

/-! abstraction of a model state -/
def modeOf (f : Flags) : Mode := if f.indef then .define else if f.indep then .indep else .coll

def abs (s : State) : AState :=
  if !s.opened then aclosed
  else { opened := true, mode := modeOf s.d, rdonly := s.d.rdonly, isNew := s.n.create, recDef := s.recDef,
         recCommit := s.recCommit, abuf := s.abuf, nGet := s.nGet, nPut := s.nPut, nBput := s.nBput }

def absOut (o : Out) : AOut := { st := abs o.st, err := o.err, del := o.del, val := o.val }

end PnVerif.ModeSpec
