import PnVerif.Base.FV
/-
  C09 specification side, written from the netCDF conversion rules, not from ncx.m4:
  a value representable in the destination is converted exactly (float → integer by
  truncation toward zero; anything → float by the machine's rounding `R`), a value
  outside the destination's range yields (fill, NC_ERANGE).
-/
namespace PnVerif.ConvSpec
open PnVerif

def NC_NOERR : Int := 0
def NC_ERANGE : Int := -60

/-- integer → integer -/
def specII (lo hi : Int) (fill v : Int) : Int × Int :=
  if lo ≤ v ∧ v ≤ hi then (v, NC_NOERR) else (fill, NC_ERANGE)

/-- floating → integer: in range iff lo ≤ v ≤ hi as real numbers; NaN and ±Inf are never
    representable in an integer type. -/
def specFI (lo hi : Int) (fill : Int) (v : FV) : Int × Int :=
  match v with
  | .fin q => if (lo : Rat) ≤ q ∧ q ≤ (hi : Rat) then (FV.truncQ q, NC_NOERR) else (fill, NC_ERANGE)
  | _ => (fill, NC_ERANGE)

/-- integer → float / double: always in range (|v| < 2^64 < FLT_MAX), value = rounded v -/
def specIF32 (R : Rounding) (v : Int) : FV × Int := (R.f32 (v : Rat), NC_NOERR)
def specIF64 (R : Rounding) (v : Int) : FV × Int := (R.f64 (v : Rat), NC_NOERR)

/-- float → double (always exact) and same-type copies -/
def specFFid (v : FV) : FV × Int := (v, NC_NOERR)

/-- double → float: finite values within ±FLT_MAX are rounded; finite values beyond, and
    ±Inf, are out of range; NaN stays NaN. -/
def fltMax : Rat := 340282346638528859811704183484516925440
def specDF (R : Rounding) (fill : FV) (v : FV) : FV × Int :=
  match v with
  | .fin q => if -fltMax ≤ q ∧ q ≤ fltMax then (R.f32 q, NC_NOERR) else (fill, NC_ERANGE)
  | .nan => (.nan, NC_NOERR)
  | _ => (fill, NC_ERANGE)

end PnVerif.ConvSpec
