import PnVerif.Gen.Consts
/-
  The abstract specification of a classic netCDF dataset as the PnetCDF *documentation*
  describes it (API-level reference model, IronFleet style: short enough to read).

  It knows nothing of byte offsets, headers, alignment, MPI, aggregation, hash tables:
  a dataset is dimensions, attributes, variables with one optional value per element, a
  record count, and — per process — the little state the API exposes (mode, locally known
  record count, pending nonblocking requests, attached buffer).

  `none` in a variable's data means "content unspecified" (never written, not filled):
  the driver prints `?` and the correspondence check treats it as a wildcard.

  Core Lean only.  Error numerals come from Gen/Consts.lean (regenerated from pnetcdf.h).
-/
namespace PnVerif.Spec.Dataset
open PnVerif.Gen.Consts

structure SAtt where
  name : String
  xtype : Nat
  vals : List Int          -- numeric values, or the bytes of a text attribute
  deriving Repr, BEq, Inhabited

structure SDim where
  name : String
  len : Nat                -- 0 = the unlimited dimension
  deriving Repr, BEq, Inhabited

structure SVar where
  name : String
  xtype : Nat
  dimids : List Nat
  atts : List SAtt
  noFill : Bool
  data : Array (Option Int)
  deriving Repr, Inhabited

inductive Mode where | define | coll | indep
  deriving Repr, BEq, Inhabited

structure Req where
  name : String
  isGet : Bool
  buffered : Bool
  var : Nat
  idxs : List Nat          -- linear element indices, in request order
  vals : List Int          -- values (puts)
  nbytes : Nat             -- external size (attached-buffer accounting)
  maxRec : Nat             -- 1 + highest record index touched (0 if none)
  deriving Repr, Inhabited

structure Rank where
  numrecs : Nat := 0
  pending : List Req := []
  abufSize : Option Nat := none
  abufUsed : Nat := 0
  deriving Repr, Inhabited

structure Schema where
  dims : List SDim := []
  gatts : List SAtt := []
  vars : List SVar := []
  deriving Repr, Inhabited

structure World where
  nprocs : Nat
  onDisk : Bool := false          -- a file exists under the current name
  isOpen : Bool := false
  rdonly : Bool := false
  fresh : Bool := false           -- created and never left define mode (abort removes it)
  fmt : Nat := 1
  s : Schema := {}
  numrecs : Nat := 0              -- the record count of the dataset (synchronised value)
  fillMode : Bool := false        -- dataset-level fill mode for variables defined from now on
  mode : Mode := .define
  ranks : Array Rank := #[]
  snap : Option (Schema × Nat) := none     -- at redef: for abort
  oldNVars : Nat := 0             -- number of variables before the current define phase
  deriving Inhabited

/-! ### helpers -/

def xsize (xt : Nat) : Nat :=
  match xt with
  | 1 => 1 | 2 => 1 | 3 => 2 | 4 => 4 | 5 => 4 | 6 => 8 | 7 => 1 | 8 => 2 | 9 => 4 | 10 => 8 | 11 => 8 | _ => 1

/-- default fill values (NC_FILL_*), as integers; float/double default fill is ≈ 9.97e36, printed by
    the harness as a non-integer: represented here by the marker `fillFloatMarker` -/
def fillFloatMarker : Int := 99692099683868690
/-- marker printed as `?` (value not specified at this level) -/
def unspecMarker : Int := 99692099683868691
def defaultFill (xt : Nat) : Int :=
  match xt with
  | 1 => -127 | 2 => 0 | 3 => -32767 | 4 => -2147483647 | 5 => fillFloatMarker | 6 => fillFloatMarker
  | 7 => 255 | 8 => 65535 | 9 => 4294967295 | 10 => -9223372036854775806 | 11 => 18446744073709551614 | _ => 0

/-- value range of an external type (none = floating point: every test value fits) -/
def xrange (xt : Nat) : Option (Int × Int) :=
  match xt with
  | 1 => some (-128, 127) | 2 => some (0, 255) | 3 => some (-32768, 32767) | 4 => some (-2147483648, 2147483647)
  | 7 => some (0, 255) | 8 => some (0, 65535) | 9 => some (0, 4294967295)
  | 10 => some (-9223372036854775808, 9223372036854775807) | 11 => some (0, 18446744073709551615)
  | _ => none

/-- value range and default fill value of a memory type -/
def mrange (mt : String) : Option (Int × Int) :=
  match mt with
  | "schar" => some (-128, 127) | "uchar" => some (0, 255) | "text" => some (-128, 255)
  | "short" => some (-32768, 32767) | "ushort" => some (0, 65535)
  | "int" => some (-2147483648, 2147483647) | "uint" => some (0, 4294967295)
  | "long" => some (-9223372036854775808, 9223372036854775807)
  | "longlong" => some (-9223372036854775808, 9223372036854775807) | "ulonglong" => some (0, 18446744073709551615)
  | _ => none

def memFill (mt : String) : Int :=
  match mt with
  | "schar" => -127 | "uchar" => 255 | "short" => -32767 | "ushort" => 65535 | "int" => -2147483647
  | "uint" => 4294967295 | "long" => -2147483647 | "longlong" => -9223372036854775806
  | "ulonglong" => 18446744073709551614 | _ => fillFloatMarker

def inRange (r : Option (Int × Int)) (v : Int) : Bool :=
  match r with
  | none => true
  | some (lo, hi) => lo ≤ v && v ≤ hi

/-- C09 at the API level: one element written through memory type `mt` into external type `xt`
    (classic formats exempt NC_BYTE <- unsigned char from the range check: the byte is reinterpreted) -/
def convPut (fmt xt : Nat) (mt : String) (fill : Int) (v : Int) : Int × Bool :=
  if xt == 2 then (v, false) else
  if fmt != 5 && xt == 1 && mt == "uchar" then ((v + 128) % 256 - 128, false) else
  if v == fillFloatMarker then (v, false) else
  if inRange (xrange xt) v then (v, false) else (fill, true)

/-- one stored element read through memory type `mt` -/
def convGet (fmt xt : Nat) (mt : String) (x : Int) : Int × Bool :=
  if xt == 2 then (x, false) else
  if fmt != 5 && xt == 1 && mt == "uchar" then (x % 256, false) else
  if x == fillFloatMarker then (if mt == "float" || mt == "double" then (x, false) else (memFill mt, true)) else
  -- reading an integer through float/double rounds when it is not exactly representable: the rounded value is
  -- C09's business (IEEE model there); here such elements are left unspecified
  if mt == "float" && (x > 16777216 || x < -16777216) then (unspecMarker, false) else
  if mt == "double" && (x > 9007199254740992 || x < -9007199254740992) then (unspecMarker, false) else
  if inRange (mrange mt) x then (x, false) else (memFill mt, true)

def findIdx? {α} (p : α → Bool) : List α → Option Nat
  | [] => none
  | x :: xs => if p x then some 0 else (findIdx? p xs).map (· + 1)

def SVar.fillValue (v : SVar) : Int :=
  match v.atts.find? (fun a => a.name == "_FillValue") with
  | some a => a.vals.headD (defaultFill v.xtype)
  | none => defaultFill v.xtype

def SVar.inFillMode (v : SVar) : Bool :=
  !v.noFill || (v.atts.any (fun a => a.name == "_FillValue"))

def Schema.dimLen (s : Schema) (d : Nat) : Nat := (s.dims.getD d ⟨"", 0⟩).len

def Schema.isRec (s : Schema) (v : SVar) : Bool :=
  match v.dimids with
  | d :: _ => s.dimLen d == 0 && d < s.dims.length
  | [] => false

/-- fixed part of the shape (without the record dimension) -/
def Schema.fixedShape (s : Schema) (v : SVar) : List Nat :=
  let sh := v.dimids.map s.dimLen
  if s.isRec v then sh.drop 1 else sh

def prod : List Nat → Nat
  | [] => 1
  | x :: xs => x * prod xs

def Schema.recElems (s : Schema) (v : SVar) : Nat := prod (s.fixedShape v)

/-- row-major linear index -/
def rowMajor : List Nat → List Nat → Nat
  | [], _ => 0
  | _, [] => 0
  | _ :: ns, i :: is => i * prod ns + rowMajor ns is

/-- all index tuples of a (start,count,stride) request, row-major -/
def enumIdx : List Nat → List Nat → List Nat → List (List Nat)
  | [], _, _ => [[]]
  | _, [], _ => [[]]
  | s :: ss, c :: cs, strides =>
    let st := strides.headD 1
    let rest := enumIdx ss cs (strides.drop 1)
    (List.range c).flatMap (fun k => rest.map (fun r => (s + k * st) :: r))

/-- linear index (into `SVar.data`) of an index tuple -/
def Schema.linIdx (s : Schema) (v : SVar) (idx : List Nat) : Nat :=
  if s.isRec v then
    idx.headD 0 * s.recElems v + rowMajor (s.fixedShape v) (idx.drop 1)
  else rowMajor (s.fixedShape v) idx

def growTo (a : Array (Option Int)) (n : Nat) : Array (Option Int) :=
  if a.size ≥ n then a else a ++ Array.replicate (n - a.size) none

/-! ### argument checking (from the API documentation) -/

/-- bounds check of one request against a variable.  `numrecs` is the caller's current view of
    the record count (reads may not go beyond it; writes may extend the record dimension).
    Relaxed coordinate bound (the build's default): start == length is allowed for count 0. -/
def checkReq (s : Schema) (fmt : Nat) (v : SVar) (isRead : Bool) (numrecs : Nat) (form : String)
    (start count : List Int) (stride : Option (List Int)) : Int :=
  let nd := v.dimids.length
  let isRec := s.isRec v
  let shape : List Int := (v.dimids.map s.dimLen).map (fun (n : Nat) => Int.ofNat n)
  let shape := if isRec then (numrecs : Int) :: shape.drop 1 else shape
  let hasCount := !(form == "var1")
  -- 1. invalid coordinates, every dimension, left to right
  let coordErr : Option Int := Id.run do
    if nd == 0 then return none
    if start.headD 0 < 0 then return some NC_EINVALCOORDS
    for d in List.range nd do
      let st := start.getD d 0
      let len : Int := if hasCount then count.getD d 1 else 1
      let sh := shape.getD d 0
      if d == 0 && isRec then
        if fmt != 5 && st > 4294967295 then return some NC_EINVALCOORDS
        if isRead then
          if sh == 0 && len > 0 then return some NC_EINVALCOORDS
          if st < 0 || st > sh || (st == sh && len > 0) then return some NC_EINVALCOORDS
      else
        if st < 0 || st > sh || (st == sh && len > 0) then return some NC_EINVALCOORDS
    return none
  match coordErr with
  | some e => e
  | none =>
    if !hasCount then NC_NOERR else
    -- 2. negative counts / edges, left to right
    let edgeErr : Option Int := Id.run do
      for d in List.range nd do
        let st := start.getD d 0
        let ct := count.getD d 1
        let sh := shape.getD d 0
        if ct < 0 then return some NC_ENEGATIVECNT
        if d == 0 && isRec && !isRead then continue
        if ct > sh || st + ct > sh then return some NC_EEDGE
        match stride with
        | none => pure ()
        | some sd =>
          let k := sd.getD d 1
          if ct > 0 && st + (ct - 1) * k ≥ sh then return some NC_EEDGE
      return none
    match edgeErr with
    | some e => e
    | none =>
      match stride with
      | none => NC_NOERR
      | some sd => if (sd.take nd).any (fun k => k ≤ 0) then NC_ESTRIDE else NC_NOERR

/-! ### the API -/

def World.rank (w : World) (r : Nat) : Rank := w.ranks.getD r {}
def World.setRank (w : World) (r : Nat) (x : Rank) : World :=
  { w with ranks := if r < w.ranks.size then w.ranks.set! r x else w.ranks }

def World.varByName (w : World) (n : String) : Option Nat := findIdx? (fun v : SVar => v.name == n) w.s.vars
def World.dimByName (w : World) (n : String) : Option Nat := findIdx? (fun d : SDim => d.name == n) w.s.dims

def World.setVar (w : World) (i : Nat) (v : SVar) : World :=
  { w with s := { w.s with vars := w.s.vars.set i v } }

/-- fill the whole of a fixed variable / one record of a record variable -/
def fillVarRec (s : Schema) (v : SVar) (rec : Nat) : SVar :=
  let n := s.recElems v
  let fv := v.fillValue
  if s.isRec v then
    let data := growTo v.data ((rec + 1) * n)
    { v with data := (List.range n).foldl (fun d k => d.set! (rec * n + k) (some fv)) data }
  else
    { v with data := Array.replicate n (some fv) }

/-- leaving define mode: new variables come into existence; those in fill mode are filled
    (fixed-size ones entirely, record ones for the records that already exist) -/
def World.enddef (w : World) : World :=
  let vars := w.s.vars.zipIdx.map (fun (v, i) =>
    if i < w.oldNVars then v else
    if w.s.isRec v then
      let v := { v with data := growTo v.data (w.numrecs * w.s.recElems v) }
      if v.inFillMode then (List.range w.numrecs).foldl (fun v r => fillVarRec w.s v r) v else v
    else
      if v.inFillMode then fillVarRec w.s v 0
      else { v with data := growTo v.data (w.s.recElems v) })
  { w with s := { w.s with vars := vars }, mode := .coll, fresh := false, snap := none,
           oldNVars := vars.length }

/-- synchronise the record count: the dataset's count becomes the maximum any process knows -/
def World.syncNumrecs (w : World) : World :=
  let m := w.ranks.foldl (fun m r => max m r.numrecs) w.numrecs
  { w with numrecs := m, ranks := w.ranks.map (fun r => { r with numrecs := m }) }

/-- element indices a request addresses (in request order) -/
def reqIdxs (s : Schema) (v : SVar) (numrecs : Nat) (form : String)
    (start count : List Int) (stride : Option (List Int)) : List (List Nat) :=
  let nd := v.dimids.length
  let st := (start.take nd).map Int.toNat
  match form with
  | "var" =>
    let sh := v.dimids.map s.dimLen
    let sh := if s.isRec v then numrecs :: sh.drop 1 else sh
    enumIdx (sh.map (fun _ => 0)) sh []
  | "var1" => [st]
  | _ =>
    let ct := (count.take nd).map Int.toNat
    let sd := match stride with | none => [] | some x => (x.take nd).map Int.toNat
    enumIdx st ct sd

def maxRecOf (s : Schema) (v : SVar) (idxs : List (List Nat)) : Nat :=
  if s.isRec v then idxs.foldl (fun m i => max m (i.headD 0 + 1)) 0 else 0

/-- store values (the effect of a completed write request) -/
def World.store (w : World) (vi : Nat) (lin : List Nat) (vals : List Int) : World :=
  match w.s.vars[vi]? with
  | none => w
  | some v =>
    let need := lin.foldl (fun m i => max m (i + 1)) 0
    let data := growTo v.data need
    let data := (lin.zip vals).foldl (fun d (i, x) => d.set! i (some x)) data
    w.setVar vi { v with data := data }

def World.load (w : World) (vi : Nat) (lin : List Nat) : List (Option Int) :=
  match w.s.vars[vi]? with
  | none => []
  | some v => lin.map (fun i => (v.data.getD i none))

end PnVerif.Spec.Dataset
