import PnVerif.Model.Scs
/-
  Specification side of C15, written from the API documentation (netCDF C guide, vars/vara/var1;
  PnetCDF RELEASE_NOTES 1.10.0 for the relaxed coordinate bound), NOT from the checker:

  * a start coordinate is a valid coordinate: 0 ≤ start; strict mode: start < extent;
    relaxed mode (NetCDF ≥ 4.6.2 convention): start ≤ extent (start = extent only for an empty edge)
  * edge lengths are non-negative; strides are ≥ 1
  * every addressed coordinate  start + k·stride, 0 ≤ k < count,  is a valid index (< extent);
    it suffices to say so for the last one
  * the record dimension of a WRITE is not bounded by the current number of records
    (records are appended), for a READ its extent is the current number of records
  * record numbers of the classic formats (CDF-1/2) are 32-bit unsigned
  * var1 addresses one element (count = 1 everywhere), a NULL stride means stride 1,
    vara/vars/varm require a count vector, every form requires a start vector

  and the documented errors:  NC_EINVALCOORDS (bad start), NC_EEDGE (start+count / strided edge
  exceeds the extent, or missing count), NC_ENEGATIVECNT (count < 0), NC_ESTRIDE (stride ≤ 0).
-/
namespace PnVerif.Spec.InBounds
open PnVerif.Scs

/-- one dimension of a request is inside an array extent (`bounded = false`: the record
    dimension of a write, which has no upper bound) -/
def DimOK (strict bounded : Bool) (start cnt str shape : Int) : Prop :=
  0 ≤ start ∧ 0 ≤ cnt ∧ 1 ≤ str ∧
  (bounded = true →
     (if strict then start < shape else start ≤ shape) ∧
     (0 < cnt → start + (cnt - 1) * str < shape))

instance (strict bounded : Bool) (a b c d : Int) : Decidable (DimOK strict bounded a b c d) := by
  unfold DimOK; infer_instance

def dimOK (c : Ctx) (r : Req) (bounded : Bool) (d : D) : Prop :=
  DimOK c.strict bounded d.start (effCount r d) (effStride r d) d.shape

instance (c : Ctx) (r : Req) (b : Bool) (d : D) : Decidable (dimOK c r b d) := by
  unfold dimOK; infer_instance

/-- the dimensions of the request, each with the flag "has an upper bound": everything except
    the record dimension of a write -/
def bdims (c : Ctx) (r : Req) : List (Bool × D) :=
  match r.dims with
  | [] => []
  | d0 :: rest => ((if c.isRec then c.isRead else true), d0) :: rest.map (fun d => (true, d))

/-- the request fits the variable's current shape -/
def InBounds (c : Ctx) (r : Req) : Prop :=
  r.startNull = false ∧ (c.needCount = true → r.hasCount = true) ∧
  (∀ p ∈ bdims c r, dimOK c r p.1 p.2) ∧
  (c.isRec = true → c.classic = true → ∀ d0 ∈ r.dims.head?, d0.start ≤ NC_MAX_UINT)

instance (c : Ctx) (r : Req) : Decidable (InBounds c r) := by
  unfold InBounds; infer_instance

/-! The documented failure conditions, per dimension (used to state which error must come out). -/

/-- bad start coordinate (NC_EINVALCOORDS) -/
def BadCoord (strict : Bool) (start cnt shape : Int) : Prop :=
  start < 0 ∨ (if strict then start ≥ shape else (start > shape ∨ (start = shape ∧ cnt > 0)))

/-- edge exceeds the extent (NC_EEDGE): more elements than the extent, or start+count beyond it,
    or – with a stride – the last addressed coordinate beyond it -/
def EdgeViol (start cnt : Int) (str : Option Int) (shape : Int) : Prop :=
  cnt > shape ∨ start + cnt > shape ∨
  match str with
  | none => False
  | some s => cnt > 0 ∧ start + (cnt - 1) * s ≥ shape

instance (strict : Bool) (a b c : Int) : Decidable (BadCoord strict a b c) := by
  unfold BadCoord; infer_instance
instance (a b : Int) (s : Option Int) (c : Int) : Decidable (EdgeViol a b s c) := by
  unfold EdgeViol; cases s <;> infer_instance

/-- stride entry of a dimension as the checker passes it on (NULL pointer = none) -/
def strideOpt (r : Req) (d : D) : Option Int := if r.hasStride then some d.stride else none

/-- the start coordinate of dimension `p` is invalid (→ NC_EINVALCOORDS) -/
def CoordBadDim (c : Ctx) (r : Req) (p : Bool × D) : Prop :=
  p.2.start < 0 ∨ (p.1 = true ∧ BadCoord c.strict p.2.start (effCount r p.2) p.2.shape)

/-- some start coordinate is invalid -/
def CoordBad (c : Ctx) (r : Req) : Prop :=
  r.startNull = true ∨ (∃ p ∈ bdims c r, CoordBadDim c r p) ∨
  (c.isRec = true ∧ c.classic = true ∧ ∃ d0 ∈ r.dims.head?, d0.start > NC_MAX_UINT)

/-- the edge of dimension `p` is negative (→ NC_ENEGATIVECNT) resp. exceeds the extent (→ NC_EEDGE) -/
def NegCount (p : Bool × D) : Prop := p.2.count < 0
def EdgeBadDim (r : Req) (p : Bool × D) : Prop :=
  p.1 = true ∧ EdgeViol p.2.start p.2.count (strideOpt r p.2) p.2.shape

instance (c : Ctx) (r : Req) (p : Bool × D) : Decidable (CoordBadDim c r p) := by
  unfold CoordBadDim; infer_instance
instance (c : Ctx) (r : Req) : Decidable (CoordBad c r) := by
  unfold CoordBad; infer_instance
instance (p : Bool × D) : Decidable (NegCount p) := by unfold NegCount; infer_instance
instance (r : Req) (p : Bool × D) : Decidable (EdgeBadDim r p) := by unfold EdgeBadDim; infer_instance

end PnVerif.Spec.InBounds
