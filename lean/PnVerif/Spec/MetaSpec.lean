import PnVerif.Model.Meta
/-
  C07 — the simple sequential reference model: dimensions, variables and attributes are plain
  lists in definition order (id = position), every lookup by name is a linear search (`lookup`),
  a deletion removes the element (later ids shift down by one), nothing else.  Error rules follow the
  netCDF/PnetCDF API documentation (define-mode requirements, name rules, `_FillValue` rules,
  "a data-mode overwrite must not grow").  No hash tables anywhere in this file.
-/
namespace PnVerif.Meta

structure SFile where
  format : Nat
  hdr : SHdr
  indef : Bool
  rdonly : Bool
  /-- number of variables that existed when define mode was re-entered (none: not after a redef) -/
  oldNvars : Option Nat
  /-- header content last written to the file -/
  disk : Option SHdr

def names {α : Type} [Named α] (l : List α) : List Name := l.map Named.name

def SFile.nvars (s : SFile) : Nat := s.hdr.vars.length
def SFile.ndims (s : SFile) : Nat := s.hdr.dims.length

def SFile.getAtts (s : SFile) (varid : Int) : Option (List Attr) :=
  if varid = NC_GLOBAL then some s.hdr.gatts
  else if 0 ≤ varid then (s.hdr.vars[varid.toNat]?).map (fun v => v.atts)
  else none

def SFile.setAtts (s : SFile) (varid : Int) (L : List Attr) : SFile :=
  if varid = NC_GLOBAL then { s with hdr := { s.hdr with gatts := L } }
  else { s with hdr := { s.hdr with vars := s.hdr.vars.modify varid.toNat (fun v => { v with atts := L }) } }

def SFile.sync (s : SFile) : SFile := if s.indef then s else { s with disk := some s.hdr }

def sDefDim (E : Env) (s : SFile) (raw : Name) (size : Int) : SFile × Int × Int :=
  if ¬ s.indef then (s, NC_ENOTINDEFINE, -1)
  else if chkNameNew E raw ≠ 0 then (s, chkNameNew E raw, -1)
  else if dimSizeBad s.format size then (s, NC_EDIMSIZE, -1)
  else if size = 0 ∧ hasUnlim s.hdr.dims then (s, NC_EUNLIMIT, -1)
  else match lookup (names s.hdr.dims) (E.nfc raw) with
    | some _ => (s, NC_ENAMEINUSE, -1)
    | none =>
      ({ s with hdr := { s.hdr with dims := s.hdr.dims ++ [Dim.mk (E.nfc raw) size.toNat] } }, NC_NOERR, s.ndims)

def sInqDimid (E : Env) (s : SFile) (raw : Name) : Int × Int :=
  if chkNameInq raw ≠ 0 then (chkNameInq raw, -1)
  else match lookup (names s.hdr.dims) (E.nfc raw) with
    | some i => (NC_NOERR, i)
    | none => (NC_EBADDIM, -1)

def sRenameDim (E : Env) (s : SFile) (dimid : Int) (raw : Name) : SFile × Int :=
  if s.rdonly then (s, NC_EPERM)
  else if chkNameNew E raw ≠ 0 then (s, chkNameNew E raw)
  else if dimid < 0 ∨ dimid ≥ s.ndims then (s, NC_EBADDIM)
  else match lookup (names s.hdr.dims) (E.nfc raw) with
    | some i => if (i : Int) = dimid then (s, NC_NOERR) else (s, NC_ENAMEINUSE)
    | none =>
      match s.hdr.dims[dimid.toNat]? with
      | none => (s, NC_EBADDIM)
      | some d =>
        if ¬ s.indef ∧ d.name.length < (E.nfc raw).length then (s, NC_ENOTINDEFINE)
        else (SFile.sync { s with hdr := { s.hdr with dims := s.hdr.dims.set dimid.toNat { d with name := E.nfc raw } } },
              NC_NOERR)

def sDefVar (E : Env) (s : SFile) (raw : Name) (xtype : Int) (dimids : List Int) : SFile × Int × Int :=
  if ¬ s.indef then (s, NC_ENOTINDEFINE, -1)
  else if chkNameNew E raw ≠ 0 then (s, chkNameNew E raw, -1)
  else if xtype ≤ 0 ∨ xtype > 11 then (s, NC_EBADTYPE, -1)
  else if xtype > 6 ∧ s.format ≤ 2 then (s, NC_ESTRICTCDF2, -1)
  else match lookup (names s.hdr.vars) (E.nfc raw) with
    | some _ => (s, NC_ENAMEINUSE, -1)
    | none =>
      if dimidsBad s.ndims dimids then (s, NC_EBADDIM, -1)
      else if unlimPosBad s.hdr.dims (dimids.map Int.toNat) then (s, NC_EUNLIMPOS, -1)
      else
        ({ s with hdr := { s.hdr with vars := s.hdr.vars ++ [SVar.mk (E.nfc raw) xtype.toNat (dimids.map Int.toNat) []] } },
         NC_NOERR, s.nvars)

def sInqVarid (E : Env) (s : SFile) (raw : Name) : Int × Int :=
  if chkNameInq raw ≠ 0 then (chkNameInq raw, -1)
  else match lookup (names s.hdr.vars) (E.nfc raw) with
    | some i => (NC_NOERR, i)
    | none => (NC_ENOTVAR, -1)

def sRenameVar (E : Env) (s : SFile) (varid : Int) (raw : Name) : SFile × Int :=
  if s.rdonly then (s, NC_EPERM)
  else if varid = NC_GLOBAL then (s, NC_EGLOBAL)
  else if varid < 0 ∨ varid ≥ s.nvars then (s, NC_ENOTVAR)
  else if chkNameNew E raw ≠ 0 then (s, chkNameNew E raw)
  else match lookup (names s.hdr.vars) (E.nfc raw) with
    | some _ => (s, NC_ENAMEINUSE)
    | none =>
      match s.hdr.vars[varid.toNat]? with
      | none => (s, NC_ENOTVAR)
      | some v =>
        if ¬ s.indef ∧ v.name.length < (E.nfc raw).length then (s, NC_ENOTINDEFINE)
        else (SFile.sync { s with hdr := { s.hdr with vars := s.hdr.vars.set varid.toNat { v with name := E.nfc raw } } },
              NC_NOERR)

def sFillRule (s : SFile) (varid : Int) (raw : Name) (xtype nelems : Nat) : Int :=
  if varid ≠ NC_GLOBAL ∧ raw = fillValueName then
    match s.hdr.vars[varid.toNat]? with
    | none => NC_NOERR
    | some v =>
      if xtype ≠ v.xtype then NC_EBADTYPE
      else if nelems ≠ 1 then NC_EINVAL
      else match s.oldNvars with
        | some n => if varid < n then NC_ELATEFILL else NC_NOERR
        | none => NC_NOERR
  else NC_NOERR

def sPutAtt (E : Env) (s : SFile) (varid : Int) (raw : Name) (isText : Bool) (xtypeArg : Int)
    (vals : List Int) : SFile × Int :=
  if s.rdonly then (s, NC_EPERM)
  else if varidBad s.nvars varid then (s, NC_ENOTVAR)
  else if chkNameNew E raw ≠ 0 then (s, chkNameNew E raw)
  else if ¬ isText ∧ chkAttType s.format xtypeArg ≠ 0 then (s, chkAttType s.format xtypeArg)
  else
    let xtype : Nat := if isText then NC_CHAR else xtypeArg.toNat
    if sFillRule s varid raw xtype vals.length ≠ 0 then (s, sFillRule s varid raw xtype vals.length)
    else match s.getAtts varid with
      | none => (s, NC_ENOTVAR)
      | some L =>
        let cv := if isText then (vals, NC_NOERR) else convAll xtype vals
        match lookup (names L) (E.nfc raw) with
        | some idx =>
          match L[idx]? with
          | none => (s, NC_ENOTATT)
          | some a =>
            if ¬ s.indef ∧ xlen xtype vals.length > a.xsz then (s, NC_ENOTINDEFINE)
            else (SFile.sync (s.setAtts varid (L.modify idx (fun a => a.overwrite xtype cv.1))), cv.2)
        | none =>
          if ¬ s.indef then (s, NC_ENOTINDEFINE)
          else (SFile.sync (s.setAtts varid (L ++ [newAttr (E.nfc raw) xtype cv.1])), cv.2)

def sRenameAtt (E : Env) (s : SFile) (varid : Int) (raw rawNew : Name) : SFile × Int :=
  if s.rdonly then (s, NC_EPERM)
  else if varidBad s.nvars varid then (s, NC_ENOTVAR)
  else if chkNameInq raw ≠ 0 then (s, chkNameInq raw)
  else if chkNameNew E rawNew ≠ 0 then (s, chkNameNew E rawNew)
  else match s.getAtts varid with
    | none => (s, NC_ENOTVAR)
    | some L =>
      match lookup (names L) (E.nfc raw) with
      | none => (s, NC_ENOTATT)
      | some idx =>
        match lookup (names L) (E.nfc rawNew) with
        | some _ => (s, NC_ENAMEINUSE)
        | none =>
          match L[idx]? with
          | none => (s, NC_ENOTATT)
          | some a =>
            if ¬ s.indef ∧ a.name.length < (E.nfc rawNew).length then (s, NC_ENOTINDEFINE)
            else (SFile.sync (s.setAtts varid (L.set idx { a with name := E.nfc rawNew })), NC_NOERR)

def sDelAtt (E : Env) (s : SFile) (varid : Int) (raw : Name) : SFile × Int :=
  if s.rdonly then (s, NC_EPERM)
  else if ¬ s.indef then (s, NC_ENOTINDEFINE)
  else if varidBad s.nvars varid then (s, NC_ENOTVAR)
  else if chkNameInq raw ≠ 0 then (s, chkNameInq raw)
  else match s.getAtts varid with
    | none => (s, NC_ENOTVAR)
    | some L =>
      match lookup (names L) (E.nfc raw) with
      | none => (s, NC_ENOTATT)
      | some idx => (s.setAtts varid (L.eraseIdx idx), NC_NOERR)

def sCopyAtt (E : Env) (sin : SFile) (varidIn : Int) (raw : Name) (sout : SFile) (varidOut : Int)
    (same : Bool) : SFile × Int :=
  if sout.rdonly then (sout, NC_EPERM)
  else if varidBad sin.nvars varidIn then (sout, NC_ENOTVAR)
  else if varidBad sout.nvars varidOut then (sout, NC_ENOTVAR)
  else if chkNameInq raw ≠ 0 then (sout, chkNameInq raw)
  else match sin.getAtts varidIn, sout.getAtts varidOut with
    | some Lin, some Lout =>
      match lookup (names Lin) (E.nfc raw) with
      | none => (sout, NC_ENOTATT)
      | some i =>
        match Lin[i]? with
        | none => (sout, NC_ENOTATT)
        | some ia =>
          -- a classic-format file (CDF-1/2) cannot hold an attribute of an extended type (NC_UBYTE..NC_UINT64):
          -- the rule ncmpi_put_att enforces (NC_ESTRICTCDF2) applies to a copy just as well
          if sout.format ≤ 2 ∧ ia.xtype > 6 then (sout, NC_ESTRICTCDF2) else
          match lookup (names Lout) (E.nfc raw) with
          | some idx =>
            if same ∧ varidIn = varidOut then (sout, NC_NOERR)
            else match Lout[idx]? with
              | none => (sout, NC_ENOTATT)
              | some oa =>
                if ¬ sout.indef ∧ ia.xsz > oa.xsz then (sout, NC_ENOTINDEFINE)
                else (SFile.sync (sout.setAtts varidOut
                        (Lout.modify idx (fun a => { a with xsz := ia.xsz, xtype := ia.xtype,
                                                            nelems := ia.nelems, vals := ia.vals }))), NC_NOERR)
          | none =>
            if ¬ sout.indef then (sout, NC_ENOTINDEFINE)
            else (SFile.sync (sout.setAtts varidOut (Lout ++ [{ ia with name := E.nfc raw }])), NC_NOERR)
    | _, _ => (sout, NC_ENOTVAR)

def sEnddef (s : SFile) : SFile × Int :=
  if ¬ s.indef then (s, NC_ENOTINDEFINE)
  else ({ s with indef := false, oldNvars := none, disk := some s.hdr }, NC_NOERR)

def sRedef (s : SFile) : SFile × Int :=
  if s.rdonly then (s, NC_EPERM)
  else if s.indef then (s, NC_EINDEFINE)
  else ({ s with indef := true, oldNvars := some s.nvars }, NC_NOERR)

def sClose (s : SFile) : Option SHdr := if s.indef then some s.hdr else s.disk

def sCreate (format : Nat) : SFile :=
  { format := format, hdr := ⟨[], [], []⟩, indef := true, rdonly := false, oldNvars := none, disk := none }

def sOpen (format : Nat) (d : SHdr) (rdonly : Bool) : SFile :=
  { format := format, hdr := d, indef := false, rdonly := rdonly, oldNvars := none, disk := some d }

/-! inquiries -/

def sInqDim (s : SFile) (dimid : Int) : Int × Name × Nat :=
  if dimid < 0 ∨ dimid ≥ s.ndims then (NC_EBADDIM, [], 0)
  else match s.hdr.dims[dimid.toNat]? with
    | some d => (NC_NOERR, d.name, d.size)
    | none => (NC_EBADDIM, [], 0)

def sInqVar (s : SFile) (varid : Int) : Int × Name × Nat × List Nat × Nat :=
  if varid = NC_GLOBAL then (NC_EGLOBAL, [], 0, [], 0)
  else if varid < 0 ∨ varid ≥ s.nvars then (NC_ENOTVAR, [], 0, [], 0)
  else match s.hdr.vars[varid.toNat]? with
    | some v => (NC_NOERR, v.name, v.xtype, v.dimids, v.atts.length)
    | none => (NC_ENOTVAR, [], 0, [], 0)

def sInqNatts (s : SFile) (varid : Int) : Int × Nat :=
  if varidBad s.nvars varid then (NC_ENOTVAR, 0)
  else match s.getAtts varid with
    | some L => (NC_NOERR, L.length)
    | none => (NC_ENOTVAR, 0)

def sInqAttname (s : SFile) (varid : Int) (attnum : Int) : Int × Name :=
  if varidBad s.nvars varid then (NC_ENOTVAR, [])
  else match s.getAtts varid with
    | none => (NC_ENOTVAR, [])
    | some L =>
      if attnum < 0 ∨ L.length = 0 ∨ attnum ≥ L.length then (NC_ENOTATT, [])
      else match L[attnum.toNat]? with
        | some a => (NC_NOERR, a.name)
        | none => (NC_ENOTATT, [])

def sInqAttid (E : Env) (s : SFile) (varid : Int) (raw : Name) : Int × Int :=
  if varidBad s.nvars varid then (NC_ENOTVAR, -1)
  else if chkNameInq raw ≠ 0 then (chkNameInq raw, -1)
  else match s.getAtts varid with
    | none => (NC_ENOTVAR, -1)
    | some L => match lookup (names L) (E.nfc raw) with
      | some i => (NC_NOERR, i)
      | none => (NC_ENOTATT, -1)

def sInqAtt (E : Env) (s : SFile) (varid : Int) (raw : Name) : Int × Nat × Nat :=
  if varidBad s.nvars varid then (NC_ENOTVAR, 0, 0)
  else if chkNameInq raw ≠ 0 then (chkNameInq raw, 0, 0)
  else match s.getAtts varid with
    | none => (NC_ENOTVAR, 0, 0)
    | some L => match lookup (names L) (E.nfc raw) with
      | none => (NC_ENOTATT, 0, 0)
      | some i => match L[i]? with
        | some a => (NC_NOERR, a.xtype, a.nelems)
        | none => (NC_ENOTATT, 0, 0)

def sGetAtt (E : Env) (s : SFile) (varid : Int) (raw : Name) (asText : Bool) : Int × List Int :=
  if varidBad s.nvars varid then (NC_ENOTVAR, [])
  else if chkNameInq raw ≠ 0 then (chkNameInq raw, [])
  else match s.getAtts varid with
    | none => (NC_ENOTVAR, [])
    | some L => match lookup (names L) (E.nfc raw) with
      | none => (NC_ENOTATT, [])
      | some i => match L[i]? with
        | none => (NC_ENOTATT, [])
        | some a =>
          if a.nelems = 0 then (NC_NOERR, [])
          else if (a.xtype = NC_CHAR) ≠ asText then (NC_ECHAR, [])
          else (NC_NOERR, a.vals)

/-! ### the reference model of a whole program -/

structure SWorld where
  files : List (Option SFile)
  disks : List (Option (Nat × SHdr))

def SWorld.file (w : SWorld) (s : Nat) : Option SFile := (w.files[s]?).getD none
def SWorld.disk (w : SWorld) (s : Nat) : Option (Nat × SHdr) := (w.disks[s]?).getD none

def SWorld.on (w : SWorld) (s : Nat) (g : SFile → SFile × Int × Int) : SWorld × Int × Int :=
  match w.file s with
  | none => (w, NC_EBADID, -1)
  | some f => ({ w with files := w.files.set s (some (g f).1) }, (g f).2)

def swstep (E : Env) (w : SWorld) : MOp → SWorld × Int × Int
  | .create s c =>
    match w.file s with
    | some _ => (w, NC_EINVAL, -1)
    | none => ({ files := w.files.set s (some (sCreate c.format)), disks := w.disks.set s none }, NC_NOERR, -1)
  | .openF s _ _ _ _ write =>
    match w.file s, w.disk s with
    | none, some (fmt, d) => ({ w with files := w.files.set s (some (sOpen fmt d (!write))) }, NC_NOERR, -1)
    | _, _ => (w, NC_EINVAL, -1)
  | .close s =>
    match w.file s with
    | none => (w, NC_EBADID, -1)
    | some f =>
      ({ files := w.files.set s none, disks := w.disks.set s ((sClose f).map (fun d => (f.format, d))) }, NC_NOERR, -1)
  | .enddef s => w.on s (fun f => ((sEnddef f).1, (sEnddef f).2, -1))
  | .redef s => w.on s (fun f => ((sRedef f).1, (sRedef f).2, -1))
  | .defDim s raw size => w.on s (fun f => sDefDim E f raw size)
  | .renameDim s dimid raw => w.on s (fun f => ((sRenameDim E f dimid raw).1, (sRenameDim E f dimid raw).2, -1))
  | .defVar s raw xtype dimids => w.on s (fun f => sDefVar E f raw xtype dimids)
  | .renameVar s varid raw => w.on s (fun f => ((sRenameVar E f varid raw).1, (sRenameVar E f varid raw).2, -1))
  | .putAtt s varid raw isText xtype vals =>
    w.on s (fun f => ((sPutAtt E f varid raw isText xtype vals).1, (sPutAtt E f varid raw isText xtype vals).2, -1))
  | .renameAtt s varid raw rawNew =>
    w.on s (fun f => ((sRenameAtt E f varid raw rawNew).1, (sRenameAtt E f varid raw rawNew).2, -1))
  | .delAtt s varid raw => w.on s (fun f => ((sDelAtt E f varid raw).1, (sDelAtt E f varid raw).2, -1))
  | .copyAtt s varid raw s2 varid2 =>
    match w.file s with
    | none => (w, NC_EBADID, -1)
    | some fin =>
      w.on s2 (fun fout => ((sCopyAtt E fin varid raw fout varid2 (s == s2)).1,
                            (sCopyAtt E fin varid raw fout varid2 (s == s2)).2, -1))

def swrun (E : Env) : SWorld → List MOp → SWorld × List (Int × Int)
  | w, [] => (w, [])
  | w, op :: rest =>
    let r := swstep E w op
    let rr := swrun E r.1 rest
    (rr.1, r.2 :: rr.2)

def SWorld.init (nslots : Nat) : SWorld := ⟨List.replicate nslots none, List.replicate nslots none⟩

end PnVerif.Meta
