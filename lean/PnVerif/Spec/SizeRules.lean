import PnVerif.Model.SizeLimits
/-
  Specification side of C18, written from the format document (netCDF "File Format
  Specifications": classic = CDF-1, 64-bit offset = CDF-2, 64-bit data = CDF-5, and the section
  "Offset format limitations" of the users' guide), NOT from the code:

  * a dimension length is a non-negative integer; CDF-1/2 store it in a signed 32-bit field,
    CDF-5 in a signed 64-bit field
  * `vsize` = bytes of a fixed variable (of ONE record of a record variable), padded to a
    multiple of 4
  * CDF-1: vsize ≤ 2^31 − 4 ;  CDF-2: vsize ≤ 2^32 − 4 ;  CDF-5: vsize fits a signed 64-bit
    field, i.e. ≤ 2^63 − 4 — with the classic exceptions: the LAST fixed variable may be larger
    when there are no record variables, and the LAST record variable may be larger
  * CDF-1 stores `begin` in a signed 32-bit field: every variable starts below 2^31
  * fixed variables follow the header extent in definition order, each padded to 4; the record
    section follows; inside a record the record variables follow each other in definition order
-/
namespace PnVerif.Spec.SizeRules
open PnVerif.SizeLimits

/-- a legal dimension length for the format -/
def DimOK (fmt : Nat) (size : Int) : Prop :=
  0 ≤ size ∧ (fmt ≠ 5 → size ≤ 2147483647)

/-- bytes of the variable (one record of it), unpadded and padded -/
def vbytes (v : Var) : Nat := v.xsz * prodl v.dims
def pad4 (n : Nat) : Nat := (n + 3) / 4 * 4
def vsize (v : Var) : Nat := pad4 (vbytes v)

/-- the per-format limit on vsize -/
def limit (fmt : Nat) : Nat :=
  if fmt = 5 then 9223372036854775804 else if fmt = 2 then 4294967292 else 2147483644

def Big (fmt : Nat) (v : Var) : Prop := vsize v > limit fmt
instance (fmt : Nat) (v : Var) : Decidable (Big fmt v) := by unfold Big; infer_instance

def fixedVars (vars : List Var) : List Var := vars.filter (fun v => !v.isRec)
def recVars (vars : List Var) : List Var := vars.filter (fun v => v.isRec)

/-- the variable-size rules of the format -/
def SizeRules (fmt : Nat) (vars : List Var) : Prop :=
  if fmt = 5 then ∀ v ∈ vars, ¬ Big fmt v
  else
    (∀ v ∈ (fixedVars vars).dropLast, ¬ Big fmt v) ∧
    (∀ v ∈ (fixedVars vars).getLast?, Big fmt v → recVars vars = []) ∧
    (∀ v ∈ (recVars vars).dropLast, ¬ Big fmt v)

instance (fmt : Nat) (vars : List Var) : Decidable (SizeRules fmt vars) := by
  unfold SizeRules; infer_instance

/-- where the k-th fixed variable starts: header extent plus the padded sizes before it -/
def sumLens (vs : List Var) : Nat := (vs.map vsize).foldr (· + ·) 0

def fixedBegin (l : Lay) (vars : List Var) (k : Nat) : Nat :=
  l.beginVar + sumLens ((fixedVars vars).take k)

/-- start of the record section: end of the fixed section (+ requested free space), 4-aligned,
    then aligned to the record alignment -/
def recSection (l : Lay) (vars : List Var) : Nat :=
  let e := pad4 (l.beginVar + sumLens (fixedVars vars) + l.vMinfree)
  if l.rAlign > 1 then rndup e l.rAlign else e

def recBegin (l : Lay) (vars : List Var) (k : Nat) : Nat :=
  recSection l vars + sumLens ((recVars vars).take k)

/-- CDF-1 only: every variable starts below 2^31 -/
def BeginRule (fmt : Nat) (l : Lay) (vars : List Var) : Prop :=
  fmt = 1 →
    (∀ k, k < (fixedVars vars).length → fixedBegin l vars k < 2147483648) ∧
    (∀ k, k < (recVars vars).length → recBegin l vars k < 2147483648)

end PnVerif.Spec.SizeRules
