/-
  Spec/SpecDecode.lean — the classic netCDF header (CDF-1 / CDF-2 / CDF-5), written from the
  format BNF only (the grammar that is quoted in the comments of ncmpio_header_get.c and in the
  "File Format Specification" appendix of the netCDF user guide):

      netcdf_file  = header  data
      header       = magic  numrecs  dim_list  gatt_list  var_list
      magic        = 'C'  'D'  'F'  VERSION            VERSION = \x01 | \x02 | \x05
      numrecs      = NON_NEG | STREAMING
      dim_list     = ABSENT | NC_DIMENSION  nelems  [dim ...]
      gatt_list    = att_list
      att_list     = ABSENT | NC_ATTRIBUTE  nelems  [attr ...]
      var_list     = ABSENT | NC_VARIABLE   nelems  [var ...]
      ABSENT       = ZERO  ZERO | ZERO ZERO64          (CDF-5)
      NC_DIMENSION = 0x0A   NC_VARIABLE = 0x0B   NC_ATTRIBUTE = 0x0C      (32-bit words)
      nelems       = NON_NEG
      dim          = name  dim_length                  dim_length = NON_NEG  (0 = record dimension)
      name         = nelems  namestring                namestring = bytes, padded to 4
      attr         = name  nc_type  nelems  [values ...]   values padded to 4
      nc_type      = 1..6 (CDF-1/2) | 1..11 (CDF-5)
      var          = name  nelems  [dimid ...]  vatt_list  nc_type  vsize  begin
      vsize        = NON_NEG  (redundant; 2^32-1 when the true size does not fit: ignored here)
      begin        = OFFSET = INT (CDF-1) | INT64 (CDF-2, CDF-5)
      NON_NEG      = non-negative INT (CDF-1, CDF-2) | non-negative INT64 (CDF-5)

  Nothing here is taken from the structure of the library's reader: no read window, no zero
  extension past the end of the file (a truncated header is simply not a header), tags are checked
  as the grammar says.  Two deliberate leniencies, both making the set of accepted files LARGER than
  the strict specification (so that theorems of the form "accepted by this decoder ⇒ read back
  exactly by the library" cover every strictly valid file): the content of padding bytes and the
  character classes of names are not inspected.

  The data types below are the BNF's (one field per grammar symbol) and are shared with the model
  (Model/Header.lean), so that "the library's decoder returns exactly what the specification says"
  is a plain equality.  Core Lean only.
-/
namespace PnVerif.Spec

abbrev Bytes := List UInt8

inductive Fmt where
  | cdf1 | cdf2 | cdf5
  deriving DecidableEq, Repr, Inhabited

/-- VERSION byte of the magic -/
def Fmt.version : Fmt → Nat
  | .cdf1 => 1 | .cdf2 => 2 | .cdf5 => 5

inductive NcType where
  | byte | char | short | int | float | double | ubyte | ushort | uint | int64 | uint64
  deriving DecidableEq, Repr, Inhabited

def NcType.code : NcType → Nat
  | .byte => 1 | .char => 2 | .short => 3 | .int => 4 | .float => 5 | .double => 6
  | .ubyte => 7 | .ushort => 8 | .uint => 9 | .int64 => 10 | .uint64 => 11

def NcType.ofCode : Nat → Option NcType
  | 1 => some .byte | 2 => some .char | 3 => some .short | 4 => some .int | 5 => some .float
  | 6 => some .double | 7 => some .ubyte | 8 => some .ushort | 9 => some .uint
  | 10 => some .int64 | 11 => some .uint64 | _ => none

/-- external size of one element -/
def NcType.size : NcType → Nat
  | .byte => 1 | .char => 1 | .ubyte => 1
  | .short => 2 | .ushort => 2
  | .int => 4 | .uint => 4 | .float => 4
  | .double => 8 | .int64 => 8 | .uint64 => 8

/-- the extended types exist only in CDF-5 -/
def NcType.okFor (t : NcType) (f : Fmt) : Bool :=
  match f with
  | .cdf5 => true
  | _ => t.code ≤ 6

structure Dim where
  name : Bytes
  size : Nat            -- 0 = the record (unlimited) dimension
  deriving DecidableEq, Repr, Inhabited

structure Att where
  name   : Bytes
  xtype  : NcType
  nelems : Nat
  xvalue : Bytes        -- nelems * xtype.size external (big-endian) bytes, padding not included
  deriving DecidableEq, Repr, Inhabited

structure Var where
  name   : Bytes
  dimids : List Nat
  atts   : List Att
  xtype  : NcType
  vsize  : Nat          -- the redundant vsize field exactly as stored
  begin  : Nat
  deriving DecidableEq, Repr, Inhabited

structure Schema where
  fmt     : Fmt
  numrecs : Nat
  dims    : List Dim
  gatts   : List Att
  vars    : List Var
  deriving DecidableEq, Repr, Inhabited

/-! ### the decoder -/

abbrev Parser (α : Type) := Bytes → Option (α × Bytes)

/-- big-endian value of a byte string -/
def beVal (bs : Bytes) : Nat := bs.foldl (fun acc b => acc * 256 + b.toNat) 0

def takeN (n : Nat) : Parser Bytes := fun b =>
  if n ≤ b.length then some (b.take n, b.drop n) else none

def word32 : Parser Nat := fun b =>
  match takeN 4 b with
  | some (x, r) => some (beVal x, r)
  | none => none

def word64 : Parser Nat := fun b =>
  match takeN 8 b with
  | some (x, r) => some (beVal x, r)
  | none => none

/-- NON_NEG: a non-negative INT (CDF-1/2) or a non-negative INT64 (CDF-5) -/
def nonNeg (f : Fmt) : Parser Nat := fun b =>
  match f with
  | .cdf5 =>
    match word64 b with
    | some (v, r) => if v < 2 ^ 63 then some (v, r) else none
    | none => none
  | _ =>
    match word32 b with
    | some (v, r) => if v < 2 ^ 31 then some (v, r) else none
    | none => none

/-- OFFSET: non-negative INT in CDF-1, non-negative INT64 in CDF-2 and CDF-5 -/
def offset (f : Fmt) : Parser Nat := fun b =>
  match f with
  | .cdf1 =>
    match word32 b with
    | some (v, r) => if v < 2 ^ 31 then some (v, r) else none
    | none => none
  | _ =>
    match word64 b with
    | some (v, r) => if v < 2 ^ 63 then some (v, r) else none
    | none => none

/-- the vsize field: a raw word of the NON_NEG width, any value (it is redundant) -/
def rawSize (f : Fmt) : Parser Nat := fun b =>
  match f with
  | .cdf5 => word64 b
  | _ => word32 b

/-- number of padding bytes after an `n`-byte item -/
def padLen (n : Nat) : Nat := (4 - n % 4) % 4

/-- an `n`-byte item followed by its padding (content of the padding not inspected) -/
def padded (n : Nat) : Parser Bytes := fun b =>
  match takeN n b with
  | some (x, r) =>
    match takeN (padLen n) r with
    | some (_, r') => some (x, r')
    | none => none
  | none => none

def name (f : Fmt) : Parser Bytes := fun b =>
  match nonNeg f b with
  | some (n, r) => padded n r
  | none => none

/-- `n` items in sequence -/
def many {α : Type} (p : Parser α) : Nat → Parser (List α)
  | 0, b => some ([], b)
  | n + 1, b =>
    match p b with
    | some (x, r) =>
      match many p n r with
      | some (xs, r') => some (x :: xs, r')
      | none => none
    | none => none

/-- `ABSENT | TAG nelems [item ...]` -/
def listOf {α : Type} (f : Fmt) (tag : Nat) (p : Parser α) : Parser (List α) := fun b =>
  match word32 b with
  | some (t, r) =>
    match nonNeg f r with
    | some (n, r') =>
      if t = 0 then (if n = 0 then some ([], r') else none)
      else if t = tag then many p n r'
      else none
    | none => none
  | none => none

def ncType (f : Fmt) : Parser NcType := fun b =>
  match word32 b with
  | some (c, r) =>
    match NcType.ofCode c with
    | some t => if t.okFor f then some (t, r) else none
    | none => none
  | none => none

def dim (f : Fmt) : Parser Dim := fun b =>
  match name f b with
  | some (nm, r) =>
    match nonNeg f r with
    | some (sz, r') => some ({ name := nm, size := sz }, r')
    | none => none
  | none => none

def att (f : Fmt) : Parser Att := fun b =>
  match name f b with
  | some (nm, r) =>
    match ncType f r with
    | some (t, r1) =>
      match nonNeg f r1 with
      | some (n, r2) =>
        match padded (n * t.size) r2 with
        | some (v, r3) => some ({ name := nm, xtype := t, nelems := n, xvalue := v }, r3)
        | none => none
      | none => none
    | none => none
  | none => none

def var (f : Fmt) : Parser Var := fun b =>
  match name f b with
  | some (nm, r) =>
    match nonNeg f r with
    | some (nd, r1) =>
      match many (nonNeg f) nd r1 with
      | some (ids, r2) =>
        match listOf f 12 (att f) r2 with
        | some (as, r3) =>
          match ncType f r3 with
          | some (t, r4) =>
            match rawSize f r4 with
            | some (vs, r5) =>
              match offset f r5 with
              | some (bg, r6) =>
                some ({ name := nm, dimids := ids, atts := as, xtype := t, vsize := vs, begin := bg }, r6)
              | none => none
            | none => none
          | none => none
        | none => none
      | none => none
    | none => none
  | none => none

def magic : Parser Fmt := fun b =>
  match b with
  | 0x43 :: 0x44 :: 0x46 :: v :: r =>
    if v = 1 then some (.cdf1, r) else if v = 2 then some (.cdf2, r) else if v = 5 then some (.cdf5, r) else none
  | _ => none

/-- header, returning the bytes that follow it (the data part) -/
def header : Parser Schema := fun b =>
  match magic b with
  | some (f, r) =>
    match nonNeg f r with          -- STREAMING (all ones) is not a NON_NEG: rejected
    | some (nr, r1) =>
      match listOf f 10 (dim f) r1 with
      | some (ds, r2) =>
        match listOf f 12 (att f) r2 with
        | some (gs, r3) =>
          match listOf f 11 (var f) r3 with
          | some (vs, r4) => some ({ fmt := f, numrecs := nr, dims := ds, gatts := gs, vars := vs }, r4)
          | none => none
        | none => none
      | none => none
    | none => none
  | none => none

/-- the independent decoder: the schema stored in a file -/
def specDecode (file : Bytes) : Option Schema := (header file).map (·.1)

/-! ### what the prose of the specification adds to the grammar -/

def rndup4 (n : Nat) : Nat := (n + 3) / 4 * 4

/-- the record dimension, if any -/
def Schema.isRecDim (d : Schema) (id : Nat) : Bool :=
  match d.dims[id]? with
  | some dm => dm.size == 0
  | none => false

/-- a record variable is one whose FIRST dimension is the record dimension -/
def Schema.isRecVar (d : Schema) (v : Var) : Bool :=
  match v.dimids with
  | [] => false
  | id :: _ => d.isRecDim id

/-- length of a dimension as a factor of a variable's size: the record dimension counts as 1 -/
def Schema.dimFactor (d : Schema) (id : Nat) : Nat :=
  match d.dims[id]? with
  | some dm => if dm.size = 0 then 1 else dm.size
  | none => 1

/-- number of elements of a variable (one record's worth for a record variable): the product of
    its dimension lengths -/
def Schema.nelems (d : Schema) (v : Var) : Nat :=
  (v.dimids.map d.dimFactor).foldr (· * ·) 1

/-- bytes one variable (one record of it) occupies, padded to 4: what vsize stands for -/
def Schema.varLen (d : Schema) (v : Var) : Nat := rndup4 (d.nelems v * v.xtype.size)

/-- dimension references are valid, there is at most one record dimension and it is only ever the
    first dimension of a variable -/
def Schema.refsOk (d : Schema) : Bool :=
  (d.dims.filter (fun dm => dm.size == 0)).length ≤ 1 &&
  d.vars.all (fun v =>
    v.dimids.all (fun id => id < d.dims.length) &&
    (v.dimids.drop 1).all (fun id => !d.isRecDim id))

/-- the begins of the variables of one kind (record variables if `wantRec`, fixed-size variables
    otherwise) increase in definition order without overlap, the first not before `prev`;
    the result is the end of the last one (`prev` if there is none) -/
def Schema.chainFrom (d : Schema) (wantRec : Bool) : List Var → Nat → Option Nat
  | [], prev => some prev
  | v :: vs, prev =>
    if d.isRecVar v != wantRec then d.chainFrom wantRec vs prev
    else if v.begin < prev then none
    else d.chainFrom wantRec vs (v.begin + d.varLen v)

/-- a layout every classic reader must accept: valid dimension references, the record dimension
    only as first dimension, variables of at most 2^31-4 bytes (the limit common to the three
    formats), fixed-size variables after the header (of `hdrLen` bytes) in definition order without
    overlap, then the record variables likewise.  Gaps are allowed anywhere; vsize is not mentioned. -/
structure Schema.LayoutValid (d : Schema) (hdrLen : Nat) : Prop where
  refs  : ∀ v ∈ d.vars, (∀ id ∈ v.dimids, id < d.dims.length) ∧ (∀ id ∈ v.dimids.drop 1, d.isRecDim id = false)
  small : ∀ v ∈ d.vars, d.nelems v * v.xtype.size ≤ 2147483644
  order : ∃ e, d.chainFrom false d.vars hdrLen = some e ∧ ∃ e', d.chainFrom true d.vars e = some e'

end PnVerif.Spec
