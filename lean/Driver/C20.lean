import PnVerif.Model.Tools
import PnVerif.Model.HeaderText
/-
  C20 correspondence driver.  One request per line on stdin, one answer per line on stdout.

    CFG <strictLen> <strictSign> <strictTag> <dimid64> <cmpNumrecs> <byteCmp>   (0/1 each) -> CFG ok
                                selects the code variants the tree follows (found by the check from the
                                witness replays): repairs of C20-F3, F4, F5, F6 (ncvalidator), F1 (cdfdiff),
                                F2 (ncmpidiff).  Default: all 0 = the pinned source.
    V <hexfile>            -> V <verdict> <spec>
                                verdict = Tools.validateCode (ok | enullpad | <fatal error>)
                                spec    = 0 Spec.specDecode (the independent BNF decoder) rejects | 1 decodes, invalid
                                          dimension references or begins out of order | 2 valid
    D <hexA> <hexB>        -> D <cdfdiff> <ncmpidiff> <leq>
                                cdfdiff   = Tools.toolDiff cdfdiffCfg on the validator's parse of both files:
                                            crash | invalid | <numHeadDIFF>,<numVarDIFF>
                                ncmpidiff = Tools.toolDiff ncmpidiffCfg on the library reader's parse (Header.decodeWhole)
                                leq       = Tools.logicalEqB on the library reader's parse (1/0, - if a file is invalid)
    DK <chunk> <hexA> <hexB> -> DK <cdfdiff>   the cdfdiff model with the variable contents compared by the chunk loop
                                (Tools.cdfdiffRecordSame with READ_CHUNK_SIZE = <chunk>) instead of whole ranges
    P <nprocs> <len>*      -> P {<start>,<count>}* | ... (one group per rank: Tools.rankBox, the part of a variable of that
                                shape a rank of ncmpidiff compares)
    O <hexfile>            -> O <xsz> <extent> {<begin> <end>}* R <recsize> <numrecs> {; f | {<start>,<end>}*}*
                                (Tools.offsetsReport and, per record variable, Tools.offsetsRecs = `ncoffsets -r`, on
                                Header.decodeWhole; ERR <code>)

  hex syntax: PnVerif/Model/HeaderText.lean
-/
open PnVerif PnVerif.Spec PnVerif.Header PnVerif.HeaderText PnVerif.Tools

def showOut (o : DiffOut) : String :=
  match o with
  | .crash => "crash"
  | .counts h v => s!"{h},{v}"

structure Cfg where
  v   : VCfg
  cdf : DiffCfg
  mpi : DiffCfg

def cdfView (c : VCfg) (f : Bytes) : Option LFile :=
  match vGetNC c f with
  | .ok (h, info, _) => some (absFile h info.recsize f)
  | .error _ => none

def libView (f : Bytes) : Option LFile :=
  match decodeWhole f with
  | .ok (h, info) => some (absFile h info.recsize f)
  | .error _ => none

/-- 0 = the BNF decoder rejects; 1 = decodes, but a dimension reference is invalid or the begins are out of
    order / overlap (Spec.refsOk, Spec.chainFrom); 2 = valid -/
def specLevel (f : Bytes) : Nat :=
  match specDecode f with
  | none => 0
  | some d =>
    let chainOk := match d.chainFrom false d.vars (Hdr.len d) with
      | some e => (d.chainFrom true d.vars e).isSome
      | none => false
    if d.refsOk && chainOk then 2 else 1

/-- the content part of cdfdiff (Tools.varDataDiff) with every record compared by the chunk loop -/
def chunkedVarDiff (chunk : Nat) (cfg : DiffCfg) (ha hb : Hdr) (rsa rsb : Nat) (fa fb : Bytes) (a b : LFile) : Nat :=
  sumNat ((ha.vars.zip a.vars).map (fun (_, lv0) =>
    match (ha.vars.zip a.vars).find? (fun p => p.2.name == lv0.name), (hb.vars.zip b.vars).find? (fun p => p.2.name == lv0.name) with
    | some (v, lv), some (w, lw) =>
      if lv.xtype ≠ lw.xtype then 0
      else if lv.dims.length ≠ lw.dims.length then 0
      else if (lv.dims.map (fun d => dimLen cfg a.numrecs d.size)) ≠ (lw.dims.map (fun d => dimLen cfg b.numrecs d.size)) then 0
      else if cfg.cmpNumrecs ∧ lv.isRec = true ∧ a.numrecs ≠ b.numrecs then 0
      else
        let n := varBytes v.xtype.size (lv.dims.map (·.size))
        let nrec := if lv.isRec then a.numrecs else 1
        b2n (!(List.range nrec).all (fun r =>
          cdfdiffRecordSame chunk fa fb (v.begin + (if lv.isRec then rsa else 0) * r) (w.begin + (if lw.isRec then rsb else 0) * r) n))
    | _, _ => 0))

def step (cfg : Cfg) (line : String) : String :=
  match tokens line.trimAscii.toString with
  | ["V", hx] =>
    match ofHex hx with
    | some f => s!"V {validateCode cfg.v f} {specLevel f}"
    | none => "bad-hex"
  | ["D", ha, hb] =>
    match ofHex ha, ofHex hb with
    | some fa, some fb =>
      let c := match cdfView cfg.v fa, cdfView cfg.v fb with
        | some a, some b => showOut (toolDiff cfg.cdf a b)
        | _, _ => "invalid"
      let (m, l) := match libView fa, libView fb with
        | some a, some b => (showOut (toolDiff cfg.mpi a b), if logicalEqB a b then "1" else "0")
        | _, _ => ("invalid", "-")
      s!"D {c} {m} {l}"
    | _, _ => "bad-hex"
  | ["DK", ck, ha, hb] =>
    match ck.toNat?, ofHex ha, ofHex hb with
    | some chunk, some fa, some fb =>
      match vGetNC cfg.v fa, vGetNC cfg.v fb with
      | .ok (h1, i1, _), .ok (h2, i2, _) =>
        let a := absFile h1 i1.recsize fa
        let b := absFile h2 i2.recsize fb
        match toolDiff cfg.cdf a b with
        | .crash => "DK crash"
        | .counts hd _ => s!"DK {hd},{(varsDiff cfg.cdf a b).2 + chunkedVarDiff chunk cfg.cdf h1 h2 i1.recsize i2.recsize fa fb a b}"
      | _, _ => "DK invalid"
    | _, _, _ => "bad-hex"
  | "P" :: np :: dims =>
    match np.toNat?, dims.mapM (·.toNat?) with
    | some n, some shape =>
      let groups := (List.range n).map (fun r =>
        String.intercalate " " ((rankBox n r shape).map (fun (st, ct) => s!"{st},{ct}")))
      "P " ++ String.intercalate " | " groups
    | _, _ => "bad-P"
  | ["O", hx] =>
    match ofHex hx with
    | some f =>
      match decodeWhole f with
      | .ok (h, info) =>
        let (xsz, ext, vs) := offsetsReport h info
        let body := String.intercalate " " (vs.map (fun (b, e) => s!"{b} {e}"))
        -- R: recsize, numrecs, then for every variable "f" or the (start,end) pairs of `ncoffsets -r` (Tools.offsetsRecs)
        let recs := String.intercalate " ; " ((h.vars.zip info.shapes).map (fun (v, sh) =>
          if isRecShape sh then
            String.intercalate " " ((offsetsRecs v sh info.recsize h.numrecs).map (fun (a, b) => s!"{a},{b}"))
          else "f"))
        s!"O {xsz} {ext} {body} R {info.recsize} {h.numrecs} ; {recs}"
      | .error e => s!"ERR {e.code}"
    | none => "bad-hex"
  | _ => "bad-op"

def bit (t : String) : Bool := t == "1"

partial def loop (h : IO.FS.Stream) (out : IO.FS.Stream) (cfg : Cfg) : IO Unit := do
  let line ← h.getLine
  if line.isEmpty then return ()
  match tokens line.trimAscii.toString with
  | ["CFG", a, b, c, d, e, g] =>
    out.putStrLn "CFG ok"
    loop h out { v := { strictLen := bit a, strictSign := bit b, strictTag := bit c, dimid64 := bit d },
                 cdf := { cdfdiffCfg with cmpNumrecs := bit e }, mpi := { ncmpidiffCfg with skipByte := !bit g } }
  | _ =>
    out.putStrLn (step cfg line)
    loop h out cfg

def main : IO Unit := do
  let out ← IO.getStdout
  loop (← IO.getStdin) out { v := VCfg.asIs, cdf := cdfdiffCfg, mpi := ncmpidiffCfg }
