import PnVerif.Spec.Dataset
/-
  API-level specification driver: runs the same script as harness/apirun.c against the abstract
  dataset model (Spec/Dataset.lean) and prints, per (step, rank), what the documentation says the
  call returns.  Tokens `?` (unspecified content) and `~` (layout-dependent, not specified) are
  wildcards for the comparison.

    lake env lean --run / .lake/build/bin/apidrv  <script> <nprocs>
-/
open PnVerif.Spec.Dataset PnVerif.Gen.Consts

structure Line where
  step : Nat
  spec : Option Nat        -- none = '*'
  toks : List String
  deriving Inhabited

def parseList (s : String) : List Int :=
  if s == "-" then [] else (s.splitOn ",").filterMap (fun t => t.toInt?)

def xtOf (s : String) : Nat :=
  match s with
  | "byte" => 1 | "char" => 2 | "short" => 3 | "int" => 4 | "float" => 5 | "double" => 6
  | "ubyte" => 7 | "ushort" => 8 | "uint" => 9 | "int64" => 10 | "uint64" => 11
  | _ => s.toNat?.getD 0

def showVal (v : Option Int) : String :=
  match v with
  | none => "?"
  | some x => if x == fillFloatMarker then "FILLF" else if x == unspecMarker then "?" else toString x

def hexNib (n : Nat) : Char := if n < 10 then Char.ofNat (48 + n) else Char.ofNat (87 + n)
def hexOfBytes (bs : List Int) : String :=
  String.ofList (bs.flatMap (fun b => let n := (b % 256).toNat; [hexNib (n / 16), hexNib (n % 16)]))
def hexVal (c : Char) : Nat :=
  if '0' ≤ c ∧ c ≤ '9' then c.toNat - 48 else if 'a' ≤ c ∧ c ≤ 'f' then c.toNat - 87 else if 'A' ≤ c ∧ c ≤ 'F' then c.toNat - 55 else 0
def bytesOfHex (s : String) : List Int :=
  let rec go : List Char → List Int
    | a :: b :: rest => ((hexVal a * 16 + hexVal b : Nat) : Int) :: go rest
    | _ => []
  go s.toList

/-- header space of an attribute value: padded to a 4-byte boundary (x_len_NC_attrV); a data-mode overwrite is permitted
    iff the new value does not need more of it -/
def attLen (xt n : Nat) : Nat := (n * xsize xt + 3) / 4 * 4

/-- memory-type check NC_ECHAR -/
def echar (xt : Nat) (mt : String) : Bool := (xt == 2) != (mt == "text")

def attTarget (w : World) (v : String) : Option (Option Nat) :=
  if v == "-" then some none else (w.varByName v).map some

def getAtts (w : World) (t : Option Nat) : List SAtt :=
  match t with
  | none => w.s.gatts
  | some i => (w.s.vars.getD i default).atts

def setAtts (w : World) (t : Option Nat) (a : List SAtt) : World :=
  match t with
  | none => { w with s := { w.s with gatts := a } }
  | some i => match w.s.vars[i]? with
    | some v => w.setVar i { v with atts := a }
    | none => w

def validName (n : String) : Bool := n.length > 0 && n.length ≤ 256

/-- ops executed identically by every process (applied once per step) -/
def isGlobal (op : String) : Bool :=
  ["create", "open", "close", "abort", "enddef", "enddef2", "redef", "sync", "flush", "sync_numrecs", "begin_indep",
   "end_indep", "barrier", "def_dim", "def_var", "put_att", "put_attm", "del_att", "rename_att", "copy_att", "rename_var",
   "rename_dim", "set_fill", "def_var_fill", "fill_var_rec"].contains op

def writeGuard (w : World) : Option Int :=
  if !w.isOpen then some NC_EBADID else if w.rdonly then some NC_EPERM else none

def inDefine (w : World) : Bool := w.mode == .define

/-- global (collective, same arguments everywhere) operations: returns new world and the payload -/
def globalOp (w : World) (t : List String) : World × String :=
  match t with
  | ["create", _path, fmt, clob, _hints] | ["create", _path, fmt, clob] =>
    if clob == "noclobber" && w.onDisk then (w, s!"{NC_EEXIST}") else
    ({ nprocs := w.nprocs, onDisk := true, isOpen := true, fresh := true, fmt := fmt.toNat?.getD 1,
       mode := .define, ranks := Array.replicate w.nprocs {}, oldNVars := 0 }, "0")
  | "open" :: _path :: md :: _ =>
    if !w.onDisk then (w, s!"{NC_ENOENT}") else
    let vars := w.s.vars.map (fun v => { v with noFill := true })
    ({ w with isOpen := true, rdonly := md != "w", mode := .coll, fillMode := false, fresh := false, snap := none,
              s := { w.s with vars := vars }, oldNVars := vars.length,
              ranks := Array.replicate w.nprocs { numrecs := w.numrecs } }, "0")
  | ["close"] =>
    if !w.isOpen then (w, s!"{NC_EBADID}") else
    let w := if inDefine w then w.enddef else w
    let w := w.syncNumrecs
    let pend := w.ranks.any (fun r => !r.pending.isEmpty)
    ({ w with isOpen := false, ranks := w.ranks.map (fun r => { r with pending := [], abufSize := none, abufUsed := 0 }) },
     if pend then s!"{NC_EPENDING}" else "0")
  | ["abort"] =>
    if !w.isOpen then (w, s!"{NC_EBADID}") else
    if w.fresh then ({ nprocs := w.nprocs, ranks := w.ranks }, "0") else
    match w.snap with
    | some (sch, nr) => ({ w with s := sch, numrecs := nr, isOpen := false, snap := none }, "0")
    | none => ({ (w.syncNumrecs) with isOpen := false }, "0")
  | "enddef" :: _ | "enddef2" :: _ =>
    if !w.isOpen then (w, s!"{NC_EBADID}") else
    if !inDefine w then (w, s!"{NC_ENOTINDEFINE}") else (w.enddef, "0")
  | ["redef"] =>
    if !w.isOpen then (w, s!"{NC_EBADID}") else
    if w.rdonly then (w, s!"{NC_EPERM}") else
    if inDefine w then (w, s!"{NC_EINDEFINE}") else
    let w := w.syncNumrecs
    ({ w with mode := .define, snap := some (w.s, w.numrecs), oldNVars := w.s.vars.length }, "0")
  | ["sync"] | ["flush"] =>
    if !w.isOpen then (w, s!"{NC_EBADID}") else
    if inDefine w then (w, s!"{NC_EINDEFINE}") else (w.syncNumrecs, "0")
  | ["sync_numrecs"] =>
    if inDefine w then (w, s!"{NC_EINDEFINE}") else (w.syncNumrecs, "0")
  | ["begin_indep"] =>
    if inDefine w then (w, s!"{NC_EINDEFINE}") else ({ w with mode := .indep }, "0")
  | ["end_indep"] =>
    if inDefine w then (w, s!"{NC_EINDEFINE}") else
    if w.mode != .indep then (w, s!"{NC_ENOTINDEP}") else ({ (w.syncNumrecs) with mode := .coll }, "0")
  | ["barrier"] => (w, "0")
  | ["def_dim", name, len] =>
    match writeGuard w with
    | some e => (w, s!"{e} -1")
    | none =>
    if !inDefine w then (w, s!"{NC_ENOTINDEFINE} -1") else
    if !validName name then (w, s!"{NC_EBADNAME} -1") else
    let n := len.toNat?.getD 0
    if n == 0 && w.s.dims.any (fun d => d.len == 0) then (w, s!"{NC_EUNLIMIT} -1") else
    if (w.dimByName name).isSome then (w, s!"{NC_ENAMEINUSE} -1") else
    ({ w with s := { w.s with dims := w.s.dims ++ [⟨name, n⟩] } }, s!"0 {w.s.dims.length}")
  | "def_var" :: name :: xt :: nd :: dnames =>
    match writeGuard w with
    | some e => (w, s!"{e} -1")
    | none =>
    if !inDefine w then (w, s!"{NC_ENOTINDEFINE} -1") else
    if !validName name then (w, s!"{NC_EBADNAME} -1") else
    let x := xtOf xt
    if x < 1 || x > 11 || (w.fmt != 5 && x > 6) then (w, s!"{NC_EBADTYPE} -1") else
    let ids := (dnames.take (nd.toNat?.getD 0)).map (fun d => if d.startsWith "#" then (d.drop 1).toString.toNat? else w.dimByName d)
    if ids.any Option.isNone then (w, s!"{NC_EBADDIM} -1") else
    let ids := ids.filterMap id
    if ids.any (fun d => d ≥ w.s.dims.length) then (w, s!"{NC_EBADDIM} -1") else
    if (ids.drop 1).any (fun d => w.s.dimLen d == 0) then (w, s!"{NC_EUNLIMPOS} -1") else
    if (w.varByName name).isSome then (w, s!"{NC_ENAMEINUSE} -1") else
    let v : SVar := { name := name, xtype := x, dimids := ids, atts := [], noFill := !w.fillMode, data := #[] }
    ({ w with s := { w.s with vars := w.s.vars ++ [v] } }, s!"0 {w.s.vars.length}")
  | "put_att" :: var :: name :: xt :: n :: vals =>
    match writeGuard w with
    | some e => (w, s!"{e}")
    | none =>
    match attTarget w var with
    | none => (w, s!"{NC_ENOTVAR}")
    | some tgt =>
      let x := xtOf xt
      let cnt := n.toNat?.getD 0
      let vs : List Int := if x == 2 then (if cnt == 0 then [] else bytesOfHex (vals.headD "")) else (vals.take cnt).filterMap String.toInt?
      if !validName name then (w, s!"{NC_EBADNAME}") else
      if x < 1 || x > 11 || (w.fmt != 5 && x > 6) then (w, s!"{NC_EBADTYPE}") else
      let atts := getAtts w tgt
      let newA : SAtt := ⟨name, x, vs⟩
      match findIdx? (fun a : SAtt => a.name == name) atts with
      | some i =>
        let old := atts.getD i default
        if !inDefine w && attLen x vs.length > attLen old.xtype old.vals.length then (w, s!"{NC_ENOTINDEFINE}")
        else (setAtts w tgt (atts.set i newA), "0")
      | none =>
        if !inDefine w then (w, s!"{NC_ENOTINDEFINE}") else (setAtts w tgt (atts ++ [newA]), "0")
  | "put_attm" :: var :: name :: xt :: mt :: n :: vals =>
    -- typed API: every element converted memory type -> external type; an unrepresentable element becomes the
    -- type's default fill value, the call returns NC_ERANGE and the attribute is stored all the same
    match writeGuard w with
    | some e => (w, s!"{e}")
    | none =>
    match attTarget w var with
    | none => (w, s!"{NC_ENOTVAR}")
    | some tgt =>
      let x := xtOf xt
      let cnt := n.toNat?.getD 0
      if !validName name then (w, s!"{NC_EBADNAME}") else
      if x < 1 || x > 11 || (w.fmt != 5 && x > 6) then (w, s!"{NC_EBADTYPE}") else
      if echar x mt then (w, s!"{NC_ECHAR}") else
      let conv := ((vals.take cnt).filterMap String.toInt?).map (convPut w.fmt x mt (defaultFill x))
      let vs := conv.map (·.1)
      let rc : Int := if conv.any (·.2) then NC_ERANGE else 0
      let atts := getAtts w tgt
      let newA : SAtt := ⟨name, x, vs⟩
      match findIdx? (fun a : SAtt => a.name == name) atts with
      | some i =>
        let old := atts.getD i default
        if !inDefine w && attLen x vs.length > attLen old.xtype old.vals.length then (w, s!"{NC_ENOTINDEFINE}")
        else (setAtts w tgt (atts.set i newA), s!"{rc}")
      | none =>
        if !inDefine w then (w, s!"{NC_ENOTINDEFINE}") else (setAtts w tgt (atts ++ [newA]), s!"{rc}")
  | ["del_att", var, name] =>
    match writeGuard w with
    | some e => (w, s!"{e}")
    | none =>
    if !inDefine w then (w, s!"{NC_ENOTINDEFINE}") else
    match attTarget w var with
    | none => (w, s!"{NC_ENOTVAR}")
    | some tgt =>
      let atts := getAtts w tgt
      if atts.any (fun a => a.name == name) then (setAtts w tgt (atts.filter (fun a => a.name != name)), "0")
      else (w, s!"{NC_ENOTATT}")
  | ["rename_att", var, old, new] =>
    match writeGuard w with
    | some e => (w, s!"{e}")
    | none =>
    match attTarget w var with
    | none => (w, s!"{NC_ENOTVAR}")
    | some tgt =>
      let atts := getAtts w tgt
      match findIdx? (fun a : SAtt => a.name == old) atts with
      | none => (w, s!"{NC_ENOTATT}")
      | some i =>
        if !validName new then (w, s!"{NC_EBADNAME}") else
        if atts.any (fun a => a.name == new) then (w, s!"{NC_ENAMEINUSE}") else
        if !inDefine w && new.length > old.length then (w, s!"{NC_ENOTINDEFINE}") else
        (setAtts w tgt (atts.set i { (atts.getD i default) with name := new }), "0")
  | ["copy_att", vin, name, vout] =>
    match writeGuard w with
    | some e => (w, s!"{e}")
    | none =>
    match attTarget w vin, attTarget w vout with
    | some tin, some tout =>
      match (getAtts w tin).find? (fun a => a.name == name) with
      | none => (w, s!"{NC_ENOTATT}")
      | some a =>
        let atts := getAtts w tout
        match findIdx? (fun b : SAtt => b.name == name) atts with
        | some i =>
          let old := atts.getD i default
          if !inDefine w && attLen a.xtype a.vals.length > attLen old.xtype old.vals.length then (w, s!"{NC_ENOTINDEFINE}")
          else (setAtts w tout (atts.set i a), "0")
        | none => if !inDefine w then (w, s!"{NC_ENOTINDEFINE}") else (setAtts w tout (atts ++ [a]), "0")
    | _, _ => (w, s!"{NC_ENOTVAR}")
  | ["rename_var", old, new] =>
    match writeGuard w with
    | some e => (w, s!"{e}")
    | none =>
    match w.varByName old with
    | none => (w, s!"{NC_ENOTVAR}")
    | some i =>
      if !validName new then (w, s!"{NC_EBADNAME}") else
      if (w.varByName new).isSome then (w, s!"{NC_ENAMEINUSE}") else
      if !inDefine w && new.length > old.length then (w, s!"{NC_ENOTINDEFINE}") else
      (w.setVar i { (w.s.vars.getD i default) with name := new }, "0")
  | ["rename_dim", old, new] =>
    match writeGuard w with
    | some e => (w, s!"{e}")
    | none =>
    match w.dimByName old with
    | none => (w, s!"{NC_EBADDIM}")
    | some i =>
      if !validName new then (w, s!"{NC_EBADNAME}") else
      if (w.dimByName new).isSome then (w, s!"{NC_ENAMEINUSE}") else
      if !inDefine w && new.length > old.length then (w, s!"{NC_ENOTINDEFINE}") else
      ({ w with s := { w.s with dims := w.s.dims.set i { (w.s.dims.getD i default) with name := new } } }, "0")
  | ["set_fill", m] =>
    match writeGuard w with
    | some e => (w, s!"{e}")
    | none =>
    if !inDefine w then (w, s!"{NC_ENOTINDEFINE}") else
    let f := m != "0"
    ({ w with fillMode := f, s := { w.s with vars := w.s.vars.map (fun v => { v with noFill := !f }) } }, "0")
  | ["def_var_fill", var, nf, fv] =>
    match writeGuard w with
    | some e => (w, s!"{e}")
    | none =>
    if !inDefine w then (w, s!"{NC_ENOTINDEFINE}") else
    match w.varByName var with
    | none => (w, s!"{NC_ENOTVAR}")
    | some i =>
      let v := w.s.vars.getD i default
      let v := { v with noFill := nf != "0" }
      let v := if fv != "-" && nf == "0" then
          let a : SAtt := ⟨"_FillValue", v.xtype, [fv.toInt?.getD 0]⟩
          match findIdx? (fun b : SAtt => b.name == "_FillValue") v.atts with
          | some k => { v with atts := v.atts.set k a }
          | none => { v with atts := v.atts ++ [a] }
        else v
      (w.setVar i v, "0")
  | ["fill_var_rec", var, rec] =>
    match writeGuard w with
    | some e => (w, s!"{e}")
    | none =>
    if inDefine w then (w, s!"{NC_EINDEFINE}") else
    if w.mode == .indep then (w, s!"{NC_EINDEP}") else
    match w.varByName var with
    | none => (w, s!"{NC_ENOTVAR}")
    | some i =>
      let v := w.s.vars.getD i default
      if !w.s.isRec v then (w, s!"{NC_ENOTRECVAR}") else
      if !v.inFillMode then (w, s!"{NC_ENOTFILL}") else
      let r := rec.toNat?.getD 0
      let w := w.setVar i (fillVarRec w.s v r)
      let w := w.syncNumrecs
      let m := max w.numrecs (r + 1)
      ({ w with numrecs := m, ranks := w.ranks.map (fun x => { x with numrecs := m }) }, "0")
  | _ => (w, "-998 unknown-op")

/-- parse the common tail of put/get/iput/iget/bput:  var memtype layout start count stride imap [: v...] -/
structure RW where
  form : String
  var : String
  mt : String
  start : List Int
  count : List Int
  stride : Option (List Int)
  vals : List Int
  segS : List (List Int) := []     -- varn
  segC : Option (List (List Int)) := none

def parseRW (form : String) (t : List String) : Option RW :=
  match t with
  | var :: mt :: _lay :: st :: ct :: sd :: _im :: rest =>
    let vals := match rest with | ":" :: vs => vs.filterMap String.toInt? | _ => []
    if form == "varn" then
      let segS := (st.splitOn "|").map parseList
      let segC := if ct == "-" then none else some ((ct.splitOn "|").map parseList)
      some { form, var, mt, start := [], count := [], stride := none, vals, segS, segC }
    else
      some { form, var, mt, start := parseList st, count := parseList ct,
             stride := if sd == "-" then none else some (parseList sd), vals }
  | _ => none

/-- validate and enumerate: returns error or (varidx, linear indices, maxRec) -/
def planRW (w : World) (r : Nat) (q : RW) (isRead : Bool) : Except Int (Nat × List Nat × Nat) :=
  match w.varByName q.var with
  | none => .error NC_ENOTVAR
  | some vi =>
    let v := w.s.vars.getD vi default
    if echar v.xtype q.mt then .error NC_ECHAR else
    let nr := (w.rank r).numrecs
    if q.form == "varn" then
      let cs : List (List Int) := match q.segC with
        | some c => c
        | none => q.segS.map (fun s => s.map (fun _ => 1))
      let errs := (q.segS.zip cs).map (fun (s, c) => checkReq w.s w.fmt v isRead nr "vara" s c none)
      match errs.find? (· != 0) with
      | some e => .error e
      | none =>
        let idxs := (q.segS.zip cs).flatMap (fun (s, c) => reqIdxs w.s v nr "vara" s c none)
        .ok (vi, idxs.map (w.s.linIdx v), maxRecOf w.s v idxs)
    else
      let form := if q.form == "varm" then "vars" else q.form
      let e := if form == "var" then 0 else
        checkReq w.s w.fmt v isRead nr form q.start q.count (if form == "vars" then q.stride else none)
      if e != 0 then .error e else
      let idxs := reqIdxs w.s v nr form q.start q.count (if form == "vars" then q.stride else none)
      .ok (vi, idxs.map (w.s.linIdx v), maxRecOf w.s v idxs)

def modeErrBlocking (w : World) (coll : Bool) (isWrite : Bool) : Option Int :=
  if !w.isOpen then some NC_EBADID else
  if isWrite && w.rdonly then some NC_EPERM else
  if inDefine w then some NC_EINDEFINE else
  if coll && w.mode == .indep then some NC_EINDEP else
  if !coll && w.mode != .indep then some NC_ENOTINDEP else none

def showVals (xs : List (Option Int)) : String := String.intercalate " " (xs.map showVal)

/-- complete one pending request: returns world and the report segment -/
def completeReq (w : World) (r : Nat) (q : Req) (printVals : Bool) : World × String :=
  if q.isGet then
    let vals := w.load q.var q.idxs
    (w, s!" | {q.name} gap=ok :" ++ (if printVals && !vals.isEmpty then " " ++ showVals vals else ""))
  else
    let w := w.store q.var q.idxs q.vals
    let rk := w.rank r
    let rk := { rk with numrecs := max rk.numrecs q.maxRec, abufUsed := if q.buffered then rk.abufUsed - q.nbytes else rk.abufUsed }
    (w.setRank r rk, s!" | {q.name} buf=ok")

/-- rank-local operations -/
def localOp (w : World) (r : Nat) (t : List String) : World × String :=
  match t with
  | "put" :: form :: c :: rest =>
    let coll := c == "c"
    match modeErrBlocking w coll true, parseRW form rest with
    | some e, _ => (w, s!"{e} buf=ok")
    | _, none => (w, "-997")
    | none, some q =>
      match planRW w r q false with
      | .error e => (w, s!"{e} buf=ok")
      | .ok (vi, lin, mr) =>
        let v := w.s.vars.getD vi default
        let cv := q.vals.map (convPut w.fmt v.xtype q.mt v.fillValue)
        let w := w.store vi lin (cv.map (·.1))
        let rk := w.rank r
        let e : Int := if cv.any (·.2) then NC_ERANGE else 0
        (w.setRank r { rk with numrecs := max rk.numrecs mr }, s!"{e} buf=ok")
  | "get" :: form :: c :: rest =>
    let coll := c == "c"
    match modeErrBlocking w coll false, parseRW form rest with
    | some e, _ => (w, s!"{e} gap=ok")
    | _, none => (w, "-997")
    | none, some q =>
      match planRW w r q true with
      | .error e => (w, s!"{e} gap=ok")
      | .ok (vi, lin, _) =>
        let v := w.s.vars.getD vi default
        let raw := w.load vi lin
        let cv := raw.map (fun o => o.map (convGet w.fmt v.xtype q.mt))
        let vals := cv.map (fun o => o.map (·.1))
        let e : Int := if cv.any (fun o => match o with | some (_, true) => true | _ => false) then NC_ERANGE else 0
        (w, s!"{e} gap=ok :" ++ (if vals.isEmpty then "" else " " ++ showVals vals))
  | ["waitall", c, kind] =>
    let coll := c == "c"
    if !w.isOpen then (w, s!"{NC_EBADID}") else
    if inDefine w then (w, s!"{NC_EINDEFINE}") else
    if coll && w.mode == .indep then (w, s!"{NC_EINDEP}") else
    if !coll && w.mode != .indep then (w, s!"{NC_ENOTINDEP}") else
    let rk := w.rank r
    let sel := fun (q : Req) => kind == "ALL" || (kind == "GET" && q.isGet) || (kind == "PUT" && !q.isGet)
    let todo := rk.pending.filter sel
    let w := w.setRank r { rk with pending := rk.pending.filter (fun q => !sel q) }
    -- writes of a wait are carried out before its reads
    let w := (todo.filter (fun q => !q.isGet)).foldl (fun w q => (completeReq w r q true).1) w
    let segs := todo.foldl (fun acc q => if q.isGet then acc ++ (completeReq w r q true).2 else acc ++ s!" | {q.name} buf=ok") ""
    (w, "0" ++ segs)
  | "cancel" :: _n :: names =>
    if !w.isOpen then (w, s!"{NC_EBADID}") else
    let rk := w.rank r
    let sts := names.map (fun n => if n == "NULL" then (0 : Int) else if rk.pending.any (fun q => q.name == n) then 0 else NC_EINVAL_REQUEST)
    let todo := names.eraseDups.filterMap (fun n => rk.pending.find? (fun q => q.name == n))
    let freed := (todo.filter (·.buffered)).foldl (fun a q => a + q.nbytes) 0
    let w := w.setRank r { rk with pending := rk.pending.filter (fun q => !names.contains q.name), abufUsed := rk.abufUsed - freed }
    let segs := todo.foldl (fun acc q => acc ++ (if q.isGet then s!" | {q.name} gap=ok :" else s!" | {q.name} buf=ok")) ""
    let stS := String.intercalate " " (sts.map toString)
    let idS := String.intercalate " " (names.map (fun _ => "N"))
    (w, s!"0 st {stS} ids {idS}".trimAscii.toString ++ segs)
  | ["attach", n] =>
    let rk := w.rank r
    if rk.abufSize.isSome then (w, s!"{NC_EPREVATTACHBUF}") else
    let sz := n.toNat?.getD 0
    if sz == 0 then (w, s!"{NC_ENULLBUF}") else
    (w.setRank r { rk with abufSize := some sz, abufUsed := 0 }, "0")
  | ["detach"] =>
    let rk := w.rank r
    if rk.abufSize.isNone then (w, s!"{NC_ENULLABUF}") else
    if rk.pending.any (·.buffered) then (w, s!"{NC_EPENDINGBPUT}") else
    (w.setRank r { rk with abufSize := none, abufUsed := 0 }, "0")
  | ["inq_buf"] =>
    let rk := w.rank r
    match rk.abufSize with
    | none => (w, s!"{NC_ENULLABUF} -1 {NC_ENULLABUF} -1")
    | some sz => (w, s!"0 {rk.abufUsed} 0 {sz}")
  | ["inq_nreqs"] => (w, s!"0 {(w.rank r).pending.length}")
  | ["inq_numrecs"] =>
    if !w.s.dims.any (fun d => d.len == 0) then (w, "0 -1") else (w, s!"0 {(w.rank r).numrecs}")
  | ["inq"] =>
    let ud : Int := match findIdx? (fun d : SDim => d.len == 0) w.s.dims with | some i => i | none => -1
    (w, s!"0 {w.s.dims.length} {w.s.vars.length} {w.s.gatts.length} {ud}")
  | ["inq_dim", name] =>
    match w.dimByName name with
    | none => (w, s!"{NC_EBADDIM} -1 -1")
    | some i =>
      let l := w.s.dimLen i
      (w, s!"0 {i} {if l == 0 then (w.rank r).numrecs else l}")
  | ["inq_dimname", id] =>
    match w.s.dims[id.toNat?.getD 99999]? with
    | none => (w, s!"{NC_EBADDIM} - -1")
    | some d => (w, s!"0 {d.name} {if d.len == 0 then (w.rank r).numrecs else d.len}")
  | ["inq_var", name] =>
    match w.varByName name with
    | none => (w, s!"{NC_ENOTVAR}")
    | some i =>
      let v := w.s.vars.getD i default
      let ds := String.intercalate " " (v.dimids.map toString)
      (w, (s!"0 {i} {v.name} {v.xtype} {v.dimids.length} {ds}".trimAscii.toString) ++ s!" {v.atts.length}")
  | ["inq_natts", var] =>
    match attTarget w var with
    | none => (w, s!"{NC_ENOTVAR} -1")
    | some t => (w, s!"0 {(getAtts w t).length}")
  | ["inq_attname", var, idx] =>
    match attTarget w var with
    | none => (w, s!"{NC_ENOTVAR} -")
    | some t =>
      match (getAtts w t)[idx.toNat?.getD 99999]? with
      | none => (w, s!"{NC_ENOTATT} -")
      | some a => (w, s!"0 {a.name}")
  | ["get_att", var, name, _mt] =>
    match attTarget w var with
    | none => (w, s!"{NC_ENOTVAR}")
    | some t =>
      match (getAtts w t).find? (fun a => a.name == name) with
      | none => (w, s!"{NC_ENOTATT}")
      | some a =>
        if a.xtype == 2 then (w, s!"0 2 {a.vals.length} {hexOfBytes a.vals}")
        else (w, (s!"0 {a.xtype} {a.vals.length} " ++ String.intercalate " " (a.vals.map (fun x => showVal (some x)))).trimAscii.toString)
  | ["get_attm", var, name, mt] =>
    match attTarget w var with
    | none => (w, s!"{NC_ENOTVAR}")
    | some t =>
      match (getAtts w t).find? (fun a => a.name == name) with
      | none => (w, s!"{NC_ENOTATT}")
      | some a =>
        if echar a.xtype mt then (w, s!"{NC_ECHAR} {a.xtype} {a.vals.length}") else
        -- src/dispatchers/attr_getput.m4 hands `long` to the driver as MPI_LONG_LONG_INT (8-byte long): the value
        -- substituted for an unrepresentable element is NC_FILL_INT64, not NC_FILL_INT as in the variable path
        let mt := if mt == "long" then "longlong" else mt
        let conv := a.vals.map (convGet w.fmt a.xtype mt)
        let rc : Int := if conv.any (·.2) then NC_ERANGE else 0
        (w, (s!"{rc} {a.xtype} {a.vals.length} " ++ String.intercalate " " (conv.map (fun c => showVal (some c.1)))).trimAscii.toString)
  | ["inq_format"] => (w, s!"0 {w.fmt}")
  | op :: rname :: form :: rest =>
    if op == "iput" || op == "iget" || op == "bput" then
      let isGet := op == "iget"
      if !w.isOpen then (w, s!"{NC_EBADID}") else
      if !isGet && w.rdonly then (w, s!"{NC_EPERM}") else
      match parseRW form rest with
      | none => (w, "-997")
      | some q =>
        match planRW w r q isGet with
        | .error e => (w, s!"{e}")
        | .ok (vi, lin, mr) =>
          let v := w.s.vars.getD vi default
          let nb := lin.length * xsize v.xtype
          let rk := w.rank r
          if op == "bput" then
            match rk.abufSize with
            | none => (w, s!"{NC_ENULLABUF}")
            | some sz =>
              if sz - rk.abufUsed < nb then (w, s!"{NC_EINSUFFBUF}") else
              let req : Req := { name := rname, isGet := false, buffered := true, var := vi, idxs := lin, vals := q.vals, nbytes := nb, maxRec := mr }
              (w.setRank r { rk with pending := rk.pending ++ [req], abufUsed := rk.abufUsed + nb }, "0")
          else
            let req : Req := { name := rname, isGet := isGet, buffered := false, var := vi, idxs := lin, vals := q.vals, nbytes := nb, maxRec := mr }
            (w.setRank r { rk with pending := rk.pending ++ [req] }, "0")
    else if op == "wait" then
      -- wait <c|i> <n> names...   (here: rname = c|i, form = n, rest = names)
      let coll := rname == "c"
      let names := rest
      if !w.isOpen then (w, s!"{NC_EBADID}") else
      if inDefine w then (w, s!"{NC_EINDEFINE}") else
      if coll && w.mode == .indep then (w, s!"{NC_EINDEP}") else
      if !coll && w.mode != .indep then (w, s!"{NC_ENOTINDEP}") else
      let rk := w.rank r
      let sts := names.map (fun n => if n == "NULL" then (0 : Int) else if rk.pending.any (fun q => q.name == n) then 0 else NC_EINVAL_REQUEST)
      let todo := names.eraseDups.filterMap (fun n => rk.pending.find? (fun q => q.name == n))
      let w := w.setRank r { rk with pending := rk.pending.filter (fun q => !names.contains q.name) }
      let (w, segs) := todo.foldl (fun (acc : World × String) q => let (w', s) := completeReq acc.1 r q true; (w', acc.2 ++ s)) (w, "")
      let stS := String.intercalate " " (sts.map toString)
      let idS := String.intercalate " " (names.map (fun _ => "N"))
      (w, s!"0 st {stS} ids {idS}".trimAscii.toString ++ segs)
    else (w, "~")
  | _ => (w, "~")

/-- is this op a collective data call after which the record count is synchronised? -/
def collEpilogue (t : List String) : Bool :=
  match t with
  | "put" :: _ :: "c" :: _ => true
  | "wait" :: "c" :: _ => true
  | "waitall" :: "c" :: _ => true
  | _ => false

def parseLine (l : String) : Option Line :=
  let t := (l.trimAscii.toString.splitOn " ").filter (· != "")
  match t with
  | st :: sp :: rest =>
    if st.startsWith "#" then none else
    match st.toNat? with
    | none => none
    | some n => some { step := n, spec := if sp == "*" then none else sp.toNat?, toks := rest }
  | _ => none

def runScript (lines : List Line) (nprocs : Nat) : List String := Id.run do
  let mut w : World := { nprocs := nprocs, ranks := Array.replicate nprocs {} }
  let mut out : List String := []
  let steps := (lines.map (·.step)).eraseDups
  for st in steps do
    let ls := lines.filter (·.step == st)
    -- per rank: the line addressed to it
    let pick := fun (r : Nat) => match ls.find? (fun l => l.spec == some r) with
      | some l => some l
      | none => ls.find? (fun l => l.spec == none)
    let mut globalDone : Option String := none
    let mut epi := false
    for r in List.range nprocs do
      match pick r with
      | none => pure ()
      | some l =>
        let op := l.toks.headD ""
        if isGlobal op then
          match globalDone with
          | some res => out := s!"{st} {r} {op} {res}" :: out
          | none =>
            let (w', res) := globalOp w l.toks
            w := w'
            globalDone := some res
            out := s!"{st} {r} {op} {res}" :: out
        else
          let (w', res) := localOp w r l.toks
          w := w'
          if collEpilogue l.toks then epi := true
          out := s!"{st} {r} {op} {res}" :: out
    if epi then w := w.syncNumrecs
  return out.reverse

def main (args : List String) : IO Unit := do
  match args with
  | [script, np] =>
    let txt ← IO.FS.readFile script
    let lines := (txt.splitOn "\n").filterMap parseLine
    let res := runScript lines (np.toNat?.getD 1)
    let out ← IO.getStdout
    for l in res do out.putStrLn l
  | _ => IO.eprintln "usage: apidrv <script> <nprocs>"
