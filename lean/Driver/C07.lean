import PnVerif.Spec.MetaSpec
/-
  C07 correspondence driver.  One request per line on stdin, one answer per line on stdout.
  The same lines go to harness/c07_meta.c (the real library).  Every request is executed on the MODEL
  (Model/Meta.lean: arrays + hash tables, hash = the real Bernstein function transcribed below) and on
  the SPEC (Spec/MetaSpec.lean: plain lists); the answer is `<model answer> ## <spec answer>`, or
  `<model answer> ## =` when both are the same string.

  name token  = <raw hex>:<nfc hex>:<legal 0|1>   ("-" = empty byte string)
    raw   : the bytes handed to the C API
    nfc   : what Unicode NFC makes of it (computed by the check with an independent implementation)
    legal : ncmpii_check_name verdict predicted by the check
  NFC and legality are parameters of the model (Env); the driver instantiates them from the tokens.

    CFG b   (code variant: 1 = ncmpio_copy_att rejects extended types for CDF-1/2 output, Env.copyChk)
    CREATE s fmt hd hv hg ha | OPEN s w hd hv hg ha | CLOSE s | ENDDEF s | REDEF s
    DEFDIM s name size | RENDIM s dimid name | DEFVAR s name xtype n d1..dn | RENVAR s varid name
    PUTATT s varid name T|L xtype n v1..vn | RENATT s varid name new | DELATT s varid name
    COPYATT s varid name s2 varid2 | GETATT s varid name T|L
    INQDIMID s name | INQVARID s name | INQATTID s varid name | INQATT s varid name
    DUMP s | DISK s | TAB s
-/
open PnVerif.Meta

namespace C07

def hexDigit (c : Char) : Nat :=
  if '0' ≤ c ∧ c ≤ '9' then c.toNat - '0'.toNat
  else if 'a' ≤ c ∧ c ≤ 'f' then c.toNat - 'a'.toNat + 10
  else if 'A' ≤ c ∧ c ≤ 'F' then c.toNat - 'A'.toNat + 10
  else 0

def parseHex (s : String) : Name :=
  if s == "-" then [] else
  let rec go : List Char → List Nat
    | a :: b :: r => (hexDigit a * 16 + hexDigit b) :: go r
    | _ => []
  go s.toList

def hexChar (n : Nat) : Char := if n < 10 then Char.ofNat (48 + n) else Char.ofNat (87 + n)

def showHex (n : Name) : String :=
  if n.isEmpty then "-" else String.ofList (n.flatMap (fun b => [hexChar (b / 16), hexChar (b % 16)]))

-- ncmpio_Bernstein_hash: `PnVerif.Meta.bernstein` (Model/MetaTab.lean; index bound proved in Props/C07.lean)

structure St where
  nfcT : List (Name × Name) := []
  legT : List (Name × Bool) := []
  w : World := World.init 2
  sw : SWorld := SWorld.init 2
  copyChk : Bool := false

def St.env (st : St) : Env :=
  { h := bernstein,
    nfc := fun n => match st.nfcT.find? (fun p => p.1 == n) with | some p => p.2 | none => n,
    legal := fun n => match st.legT.find? (fun p => p.1 == n) with | some p => p.2 | none => true,
    copyChk := st.copyChk }

/-- register a name token, return the raw bytes -/
def St.name (st : St) (tok : String) : St × Name :=
  match tok.splitOn ":" with
  | [r, n, l] =>
    let raw := parseHex r
    ({ st with nfcT := (raw, parseHex n) :: st.nfcT, legT := (raw, l == "1") :: st.legT }, raw)
  | _ => (st, parseHex tok)

def showInts (l : List Int) : String := if l.isEmpty then "-" else ",".intercalate (l.map toString)
def showNats (l : List Nat) : String := if l.isEmpty then "-" else ",".intercalate (l.map toString)

/-- the inquiry interface of one open file: the dump below goes through these functions only -/
structure Inq where
  ndims : Nat
  nvars : Nat
  inqDim : Int → Int × Name × Nat
  inqDimid : Name → Int × Int
  inqVar : Int → Int × Name × Nat × List Nat × Nat
  inqVarid : Name → Int × Int
  inqNatts : Int → Int × Nat
  inqAttname : Int → Int → Int × Name
  inqAtt : Int → Name → Int × Nat × Nat
  inqAttid : Int → Name → Int × Int
  getAtt : Int → Name → Bool → Int × List Int

def modelInq (E : Env) (f : File) : Inq :=
  { ndims := f.ndims, nvars := f.nvars, inqDim := inqDim f, inqDimid := inqDimid E f, inqVar := inqVar f,
    inqVarid := inqVarid E f, inqNatts := inqNatts f, inqAttname := inqAttname f, inqAtt := inqAtt E f,
    inqAttid := inqAttid E f, getAtt := getAtt E f }

def specInq (E : Env) (s : SFile) : Inq :=
  { ndims := s.ndims, nvars := s.nvars, inqDim := sInqDim s, inqDimid := sInqDimid E s, inqVar := sInqVar s,
    inqVarid := sInqVarid E s, inqNatts := sInqNatts s, inqAttname := sInqAttname s, inqAtt := sInqAtt E s,
    inqAttid := sInqAttid E s, getAtt := sGetAtt E s }

def dumpAtts (q : Inq) (varid : Int) : String :=
  let (_, n) := q.inqNatts varid
  String.join ((List.range n).map (fun (k : Nat) =>
    let (e1, nm) := q.inqAttname varid (k : Int)
    let (e2, ty, len) := q.inqAtt varid nm
    let (e3, id) := q.inqAttid varid nm
    let (e4, vals) := q.getAtt varid nm (ty == NC_CHAR)
    s!" | A{varid}.{k} {e1} {showHex nm} {e2} {ty} {len} {e3} {id} {e4} {showInts vals}"))

def dump (q : Inq) : String :=
  let dims := (List.range q.ndims).map (fun (i : Nat) => q.inqDim (i : Int))
  let ul : Int := match dims.findIdx? (fun d => d.2.2 == 0) with | some i => i | none => -1
  let (_, ng) := q.inqNatts NC_GLOBAL
  let hd := s!"nd={q.ndims} nv={q.nvars} ng={ng} ul={ul}"
  let ds := String.join ((List.range q.ndims).map (fun (i : Nat) =>
    let (e, nm, len) := q.inqDim (i : Int)
    let (e2, id) := q.inqDimid nm
    s!" | D{i} {e} {showHex nm} {len} {e2} {id}"))
  let vs := String.join ((List.range q.nvars).map (fun (i : Nat) =>
    let (e, nm, ty, dimids, na) := q.inqVar (i : Int)
    let (e2, id) := q.inqVarid nm
    s!" | V{i} {e} {showHex nm} {ty} {dimids.length} {showNats dimids} {na} {e2} {id}" ++ dumpAtts q (i : Int)))
  hd ++ ds ++ dumpAtts q NC_GLOBAL ++ vs

def showTab (T : Table) : String :=
  let parts := (List.range T.length).filterMap (fun k =>
    let b := bucket T k
    if b.isEmpty then none else some s!"{k}:{showNats b}")
  "{" ++ ";".intercalate parts ++ "}"

def tabDump (f : File) : String :=
  s!"D{showTab f.hdr.dims.tab} V{showTab f.hdr.vars.tab} G{showTab f.hdr.gatts.tab}" ++
  String.join (f.hdr.vars.items.map (fun v => " A" ++ showTab v.atts.tab))

def both (m sp : String) : String := if m == sp then m ++ " ## =" else m ++ " ## " ++ sp

def parseInts (l : List String) : List Int := l.filterMap String.toInt?

/-- run one operation of the proved step functions `wstep` (model) and `swstep` (reference model) -/
def St.exec (st : St) (E : Env) (s : Nat) (op : MOp) (withId : Bool) (needOpen : Bool := true) : St × String :=
  if needOpen ∧ (st.w.file s).isNone then (st, "closed") else
  let (w', e, id) := wstep E st.w op
  let (sw', se, sid) := swstep E st.sw op
  let fmt := fun (e id : Int) => if withId then s!"{e} {id}" else s!"{e}"
  ({ st with w := w', sw := sw' }, both (fmt e id) (fmt se sid))

def St.query (st : St) (s : Nat) (fm : File → String) (fs : SFile → String) : St × String :=
  match st.w.file s, st.sw.file s with
  | some f, some sf => (st, both (fm f) (fs sf))
  | _, _ => (st, "closed")

def nat! (s : String) : Nat := s.toNat?.getD 0
def int! (s : String) : Int := s.toInt?.getD 0

def step (st : St) (line : String) : St × String :=
  match line.trimAscii.toString.splitOn " " with
  | ["CFG", b] => ({ st with copyChk := b == "1" }, "cfg")
  | ["CREATE", s, fmt, hd, hv, hg, ha] =>
    st.exec st.env (nat! s) (.create (nat! s) ⟨nat! hd, nat! hv, nat! hg, nat! ha, nat! fmt⟩) false false
  | ["OPEN", s, w, hd, hv, hg, ha] =>
    st.exec st.env (nat! s) (.openF (nat! s) (nat! hd) (nat! hv) (nat! hg) (nat! ha) (w == "1")) false false
  | ["CLOSE", s] => st.exec st.env (nat! s) (.close (nat! s)) false
  | ["ENDDEF", s] => st.exec st.env (nat! s) (.enddef (nat! s)) false
  | ["REDEF", s] => st.exec st.env (nat! s) (.redef (nat! s)) false
  | ["DEFDIM", s, name, size] =>
    let (st, raw) := st.name name
    st.exec st.env (nat! s) (.defDim (nat! s) raw (int! size)) true
  | ["RENDIM", s, dimid, name] =>
    let (st, raw) := st.name name
    st.exec st.env (nat! s) (.renameDim (nat! s) (int! dimid) raw) false
  | "DEFVAR" :: s :: name :: xtype :: _n :: dimids =>
    let (st, raw) := st.name name
    st.exec st.env (nat! s) (.defVar (nat! s) raw (int! xtype) (parseInts dimids)) true
  | ["RENVAR", s, varid, name] =>
    let (st, raw) := st.name name
    st.exec st.env (nat! s) (.renameVar (nat! s) (int! varid) raw) false
  | "PUTATT" :: s :: varid :: name :: api :: xtype :: _n :: vals =>
    let (st, raw) := st.name name
    st.exec st.env (nat! s) (.putAtt (nat! s) (int! varid) raw (api == "T") (int! xtype) (parseInts vals)) false
  | ["RENATT", s, varid, name, newname] =>
    let (st, raw) := st.name name
    let (st, raw2) := st.name newname
    st.exec st.env (nat! s) (.renameAtt (nat! s) (int! varid) raw raw2) false
  | ["DELATT", s, varid, name] =>
    let (st, raw) := st.name name
    st.exec st.env (nat! s) (.delAtt (nat! s) (int! varid) raw) false
  | ["COPYATT", s, varid, name, s2, varid2] =>
    let (st, raw) := st.name name
    if (st.w.file (nat! s2)).isNone then (st, "closed") else
    st.exec st.env (nat! s) (.copyAtt (nat! s) (int! varid) raw (nat! s2) (int! varid2)) false
  | ["GETATT", s, varid, name, api] =>
    let (st, raw) := st.name name
    let E := st.env
    st.query (nat! s) (fun f => let r := getAtt E f (int! varid) raw (api == "T"); s!"{r.1} {showInts r.2}")
                      (fun f => let r := sGetAtt E f (int! varid) raw (api == "T"); s!"{r.1} {showInts r.2}")
  | ["INQDIMID", s, name] =>
    let (st, raw) := st.name name
    let E := st.env
    st.query (nat! s) (fun f => let r := inqDimid E f raw; s!"{r.1} {r.2}") (fun f => let r := sInqDimid E f raw; s!"{r.1} {r.2}")
  | ["INQVARID", s, name] =>
    let (st, raw) := st.name name
    let E := st.env
    st.query (nat! s) (fun f => let r := inqVarid E f raw; s!"{r.1} {r.2}") (fun f => let r := sInqVarid E f raw; s!"{r.1} {r.2}")
  | ["INQATTID", s, varid, name] =>
    let (st, raw) := st.name name
    let E := st.env
    st.query (nat! s) (fun f => let r := inqAttid E f (int! varid) raw; s!"{r.1} {r.2}")
                      (fun f => let r := sInqAttid E f (int! varid) raw; s!"{r.1} {r.2}")
  | ["INQATT", s, varid, name] =>
    let (st, raw) := st.name name
    let E := st.env
    st.query (nat! s) (fun f => let r := inqAtt E f (int! varid) raw; s!"{r.1} {r.2.1} {r.2.2}")
                      (fun f => let r := sInqAtt E f (int! varid) raw; s!"{r.1} {r.2.1} {r.2.2}")
  | ["DUMP", s] =>
    let E := st.env
    st.query (nat! s) (fun f => dump (modelInq E f)) (fun f => dump (specInq E f))
  | ["DISK", s] =>
    let E := st.env
    st.query (nat! s)
      (fun f => match f.disk with
        | none => "nodisk"
        | some d => dump (modelInq E (openFile E ⟨256, 256, 64, 8, f.cfg.format⟩ d true)))
      (fun sf => match sf.disk with
        | none => "nodisk"
        | some d => dump (specInq E (sOpen sf.format d true)))
  | ["TAB", s] =>
    match st.w.file (nat! s) with
    | some f => (st, tabDump f ++ " ## =")
    | none => (st, "closed")
  | _ => (st, "bad-op")

partial def loop (h : IO.FS.Stream) (out : IO.FS.Stream) (st : St) : IO Unit := do
  let line ← h.getLine
  if line.isEmpty then return ()
  let (st', ans) := step st line
  out.putStrLn ans
  out.flush
  loop h out st'

end C07

def main : IO Unit := do
  let out ← IO.getStdout
  C07.loop (← IO.getStdin) out {}
