import PnVerif.Model.BBLog
/-
  C12 unit driver:  F <flushbuffersize> <n> v:s ...  ->  rounds "i,j|k,..." extra=<k> (model of
  ncbbio_log_flush_core: effective buffer = min(datalogsize, flushbuffersize>0) raised to maxentrysize)
-/
open PnVerif.BBLog

def parseEntry (t : String) : Entry :=
  match t.splitOn ":" with
  | [v, s] => (v == "1", s.toNat?.getD 0)
  | _ => (false, 0)

def step (line : String) : String :=
  match (line.trimAscii.toString.splitOn " ").filter (· != "") with
  | "F" :: fbs :: n :: rest =>
    let es := (rest.take (n.toNat?.getD 0)).map parseEntry
    let total := es.foldl (fun a e => a + e.2) 0 + 8
    let maxe := es.foldl (fun a e => max a e.2) 0
    let f := fbs.toNat?.getD 0
    let buf := if f > 0 ∧ total > f then f else total
    let buf := if buf < maxe then maxe else buf
    -- index the entries so that rounds can be printed by entry number
    let rounds := execRounds buf es.length es
    let (_, strs) := rounds.foldl (fun (acc : Nat × List String) r =>
        let idxs := (List.range r.length).filterMap (fun j => if (r.getD j (false, 0)).1 then some (toString (acc.1 + j)) else none)
        (acc.1 + r.length, acc.2 ++ [String.intercalate "," idxs])) (0, [])
    let extra := nrounds buf es - rounds.length
    s!"{String.intercalate "|" strs} extra={extra} status=0 data=ok"
  | _ => "bad-op"

partial def loop (h : IO.FS.Stream) (out : IO.FS.Stream) : IO Unit := do
  let line ← h.getLine
  if line.isEmpty then return ()
  out.putStrLn (step line)
  loop h out

def main : IO Unit := do loop (← IO.getStdin) (← IO.getStdout)
