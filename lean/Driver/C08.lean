import PnVerif.Model.World
/-
  C08 correspondence driver.  One case per line on stdin (the line the C harness harness/c08_coll.c
  executes, see there), one answer per line on stdout:

    CASE <id> <api> <fix|rec> safe= hcoll= aggr= indep= nr= [x=..] [lay=..] [rp=zfmbvs] | <in rank0> | <in rank1> ...
      ->  <id> ret=<code> tr=<tok,..|-> trig=<0|1> | ... (one group per rank) || M completed
                                                                                 || M stuck <entered rank0> <entered rank1> ...

  `entered` = number of collectives the rank has entered when nobody can move any more.
  The translation of the harness's concrete inputs (rows, request counts) into the model's RankInput is
  done here and is part of the trusted glue.
-/
open PnVerif.World

def tokName : CollTok → String
  | .allreduce => "allreduce" | .bcast => "bcast" | .barrier => "barrier" | .gather => "gather"
  | .commDup => "commDup" | .commFree => "commFree" | .fileOpen => "fileOpen" | .fileClose => "fileClose"
  | .fileSync => "fileSync" | .setView => "setView" | .writeAll => "writeAll" | .readAll => "readAll"

def showTrace (t : Trace) : String :=
  if t.isEmpty then "-" else String.intercalate "," (t.map tokName)

def words (s : String) : List String := (s.splitOn " ").filter (· ≠ "")

def kvOf (ws : List String) (key : String) : Option String :=
  ws.findSome? fun w => if w.startsWith (key ++ "=") then some ((w.drop (key.length + 1)).toString) else none

def kvNat (ws : List String) (key : String) (d : Nat) : Nat :=
  match kvOf ws key with
  | some v => v.toNat?.getD d
  | none => d

def argErrOf : String → Option ArgErr
  | "coords" => some .einvalcoords | "coordsrec" => some .einvalcoords | "edge" => some .eedge
  | "stride" => some .estride | "negcnt" => some .enegativecnt | "notvar" => some .enotvar
  | "global" => some .eglobal | "echar" => some .echar | "einval" => some .einval
  | "nullstart" => some .enullstart | _ => none

def natOr (s : Option String) (d : Nat) : Nat := (s.bind String.toNat?).getD d

/-- per-rank input of the harness -> RankInput -/
def parseIn (api : String) (isRec : Bool) (nr0 : Nat) (rank : Nat) (ws : List String) : Option RankInput :=
  let form := (api.drop 4).toString
  let a1 := ws[1]?
  let a2 := ws[2]?
  match ws.head? with
  | some "V" =>
      let row := natOr a1 0
      if api == "fill_var_rec" then some { fillCls := .ok, varid := 0, recno := row }
      else if form == "var" then some { cls := .valid, recEnd := nr0 }
      else some { cls := .valid, recEnd := row + 1 }
  | some "Z" => some { cls := .zeroLen, recEnd := if form == "vard" then 1 else 0 }
  | some "E" =>
      let k := a1.getD ""
      if api == "fill_var_rec" then
        (if k == "notrec" then some { fillCls := .notRec, varid := 2 }
         else if k == "notfill" then some { fillCls := .notFill, varid := 1 } else none)
      else if api == "create" || api == "open" then some { metaArg := 1 }
      else if api == "enddef_" then
        (if k == "einval" then some { metaErr := 36 } else if k == "multi" then some { metaArg := 1 } else none)
      else if api.startsWith "meta_" then
        (if k == "badname" then some { metaErr := 59 } else none)
      else if api == "rename_var" then
        (if k == "badname" then some { metaErr := 59 } else if k == "multi" then some { metaArg := 1 } else none)
      else (argErrOf k).map fun e => { cls := .argErr e }
  | some "D" =>
      let k := a1.getD ""
      let row := natOr a2 0
      if k == "iomis" then some { cls := .drvErr .eiomismatch, recEnd := if form == "vard" then row + 1 else 0 }
      else if k == "etype" then some { cls := .drvErr .etypeMismatch, recEnd := if form == "vard" then row + 1 else 0 }
      else none
  | some "P" =>
      let np := natOr a1 0
      let ng := natOr a2 0
      let how := (ws[3]?).getD "all"
      some { nPut := np, nGet := ng, maxRec := if isRec && np > 0 then nr0 + rank * 4 + np else 0,
             waitErr := how == "bad" }
  | some "M" =>
      let n (i : Nat) : Nat := natOr ws[i]? 0
      some { margs := { name := n 1, name2 := n 2, ident := n 3, xtype := n 4, len := n 5, vals := n 6 } }
  | some "I" => some {}
  | some "-" => some {}
  | _ => none

def parseFix (s : String) : List FixVar :=
  (s.splitOn ";").filterMap fun e =>
    match e.splitOn "-" with
    | [a, b, c] => match a.toNat?, b.toNat?, c.toNat? with
      | some a, some b, some c => some { oldBegin := a, newBegin := b, len := c }
      | _, _, _ => none
    | _ => none

/-- lay=np:obv:nbv:obr:nbr:ors:nrs:nr:nvars:fill:isRedef:ob-nb-len;ob-nb-len -/
def parseLayout (s : String) : Layout :=
  let p := s.splitOn ":"
  let n (i : Nat) : Nat := natOr p[i]? 0
  { nprocs := n 0, oldBeginVar := n 1, newBeginVar := n 2, oldBeginRec := n 3, newBeginRec := n 4,
    oldRecsize := n 5, newRecsize := n 6, numrecs := n 7, nvars := n 8, fillNew := n 9 == 1,
    isRedef := n 10 == 1, fixVars := parseFix ((p[11]?).getD "") }

def parseApi (api : String) (isRec : Bool) (L : Layout) : Option Api :=
  let vk : VarKind := if isRec then .record else .fixed
  let gp (d : Dir) (form : String) : Option Api :=
    if form == "var" || form == "var1" || form == "vara" || form == "vars" || form == "varm" then some (.getput .var d vk)
    else if form == "varn" || form == "mvara" then some (.getput .nb d vk)
    else if form == "vard" then some (.getput .vard d vk)
    else none
  if api.startsWith "put_" then gp .put (api.drop 4).toString
  else if api.startsWith "get_" then gp .get (api.drop 4).toString
  else match api with
    | "wait_all" => some .waitAll
    | "fill_var_rec" => some .fillVarRec
    | "sync" => some .sync
    | "sync_numrecs" => some .syncNumrecs
    | "begin_indep" => some .beginIndep
    | "end_indep" => some .endIndep
    | "redef" => some .redef
    | "enddef" => some (.enddef L false)
    | "enddef_" => some (.enddef L true)
    | "close" => some (.close L)
    | "close_def" => some (.close L)
    | "create" => some .create
    | "open" => some (.openFile 1)
    | "rename_var" => some .renameVar
    | "meta_putatt" => some (.metaCall .putAtt)
    | "meta_defdim" => some (.metaCall .defDim)
    | "meta_defvar" => some (.metaCall .defVar)
    | "meta_renamedim" => some (.metaCall .renameDim)
    | "meta_renameatt" => some (.metaCall .renameAtt)
    | "meta_delatt" => some (.metaCall .delAtt)
    | "meta_copyatt" => some (.metaCall .copyAtt)
    | "meta_setfill" => some (.metaCall .setFill)
    | "meta_defvarfill" => some (.metaCall .defVarFill)
    | _ => none

/-- length of the longest common prefix along which all ranks move together -/
def commonSteps : Nat → List Trace → Nat
  | 0, _ => 0
  | fuel + 1, w =>
    match w with
    | [] => 0
    | t0 :: _ =>
      match t0.head? with
      | none => 0
      | some c => if w.all (fun t => t.head? == some c) then 1 + commonSteps fuel (w.map List.tail) else 0

def matchReport (w : List Trace) : String :=
  let fuel := (w.map List.length).foldl max 0
  let k := commonSteps fuel w
  if w.all (fun t => t.length == k) then "M completed"
  else "M stuck " ++ String.intercalate " " (w.map fun t => toString (min t.length (k + 1)))

def doCase (line : String) : String :=
  match line.splitOn "|" with
  | [] => "bad-line"
  | hdr :: ins =>
    let ws := words hdr
    match ws with
    | "CASE" :: id :: api :: vk :: _ =>
      let isRec := vk == "rec"
      let nr0 := kvNat ws "nr" 0
      let rpS := (kvOf ws "rp").getD "000000"
      let rpc := rpS.toList
      let rp : Repairs := { zeroPathNumrecs := rpc[0]? == some '1', fillVarRecErr := rpc[1]? == some '1',
                            metaErrJoins := rpc[2]? == some '1', zeroPathBadVarid := rpc[3]? == some '1',
                            vardGuard := rpc[4]? == some '1', safeMinCode := rpc[5]? == some '1' }
      let L := parseLayout ((kvOf ws "lay").getD "")
      let cfg : Cfg := { safe := kvNat ws "safe" 0 == 1, hcoll := kvNat ws "hcoll" 0 == 1, aggr := kvNat ws "aggr" 0 == 1,
                         indep := kvNat ws "indep" 0 == 1 || api == "end_indep", indef := api == "close_def" || (api.startsWith "meta_" && kvNat ws "dm" 0 == 0),
                         numrecs := nr0 }
      match parseApi api isRec L with
      | none => id ++ " bad-api"
      | some a =>
        let rec go (i : Nat) (l : List String) : Option (List RankInput) :=
          match l with
          | [] => some []
          | s :: rest => do
            let x ← parseIn api isRec nr0 i (words s)
            let xs ← go (i + 1) rest
            pure (x :: xs)
        match go 0 ins with
        | none => id ++ " bad-input"
        | some world =>
          let traces := world.map (localTrace rp a cfg world)
          let groups := world.map fun x =>
            s!"ret={localRet rp a cfg world x} tr={showTrace (localTrace rp a cfg world x)} trig={if decide (Trigger rp a cfg x) then 1 else 0}"
          id ++ " " ++ String.intercalate " | " groups ++ " || " ++ matchReport traces
    | _ => "bad-line"

partial def loop (h : IO.FS.Stream) (out : IO.FS.Stream) : IO Unit := do
  let line ← h.getLine
  if line.isEmpty then return ()
  let l := line.trimAscii.toString
  if l.startsWith "CASE" then out.putStrLn (doCase l)
  loop h out

def main : IO Unit := do
  let out ← IO.getStdout
  loop (← IO.getStdin) out
