import PnVerif.Lemmas.Access
import PnVerif.Lemmas.Contig
/-
  C01 unit driver: the model's `strideFlatten` / `firstOffset` and the specification's enumeration
  on the same lines as harness/c01_unit.c.
    SF ... -> <seglen> <nblocks> disps...  |  spec: element offsets (relative to begin) in request order
    FO ... -> <model offset> <spec offset>
-/
open PnVerif.Access

def nats (ts : List String) : List Nat := ts.map (fun t => t.toNat?.getD 0)

def step (line : String) : String :=
  match (line.trimAscii.toString.splitOn " ").filter (· != "") with
  | "SF" :: isrec :: xsz :: recsize :: nd :: rest =>
    let n := nd.toNat?.getD 0
    let xs := nats rest
    let shape := xs.take n
    let start := (xs.drop n).take n
    let count := (xs.drop (2 * n)).take n
    let stride := (xs.drop (3 * n)).take n
    let v : VarLay := { begin := 0, xsz := xsz.toNat?.getD 1, shape := shape, isRec := isrec == "1", recsize := recsize.toNat?.getD 0 }
    let r := strideFlatten v start count stride
    let nblocks := r.1.length
    let modelS := s!"{if nblocks > 0 then r.2 else 0} {nblocks}" ++ String.join (r.1.map (fun d => s!" {d}"))
    let specOffs := (enumIdx start count stride).map (fun idx => elemOff v idx)
    let implied := expandBlocks v.xsz r.1 r.2
    modelS ++ " | " ++ String.intercalate " " (specOffs.map toString) ++ " | " ++ String.intercalate " " (implied.map toString)
  | "FO" :: isrec :: xsz :: recsize :: begin :: nd :: rest =>
    let n := nd.toNat?.getD 0
    let xs := nats rest
    let shape := xs.take n
    let start := (xs.drop n).take n
    let v : VarLay := { begin := begin.toNat?.getD 0, xsz := xsz.toNat?.getD 1, shape := shape, isRec := isrec == "1", recsize := recsize.toNat?.getD 0 }
    s!"{firstOffset v start} {elemOff v start}"
  | "RC" :: isrec :: nrv :: nd :: rest =>
    -- model answer, and whether the addressed elements REALLY are one run (specification side)
    let n := nd.toNat?.getD 0
    let xs := nats rest
    let shape := xs.take n
    let start := (xs.drop n).take n
    let count := (xs.drop (2 * n)).take n
    let isr := isrec == "1"
    let numrv := nrv.toNat?.getD 0
    let m := isReqContig isr numrv shape count
    -- layout for the oracle: element size 2; a record = this variable's record (+ 6 bytes of other record variables if nrv > 1)
    let inner := prod (shape.drop 1)
    let v : VarLay := { begin := 0, xsz := 2, shape := shape, isRec := isr, recsize := inner * 2 + (if numrv > 1 then 6 else 0) }
    let offs := (enumIdx start count (ones n)).map (elemOff v)
    let really := match offs with
      | [] => true
      | o :: _ => offs == consec o offs.length 2
    s!"{if m then 1 else 0} {if really then 1 else 0}"
  | _ => "bad-op"

partial def loop (h : IO.FS.Stream) (out : IO.FS.Stream) : IO Unit := do
  let line ← h.getLine
  if line.isEmpty then return ()
  out.putStrLn (step line)
  loop h out

def main : IO Unit := do loop (← IO.getStdin) (← IO.getStdout)
