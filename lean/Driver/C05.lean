import PnVerif.Model.NumRecs
/-
  C05 correspondence driver: runs Model/NumRecs.lean on the history script the C harness harness/c05_rec.c
  executes (format: see there) and prints, after every call,

      S <hist> <opindex> nr=<numrecs rank0>,<numrecs rank1>,… hdr=<header field> hi=<ghost> own=<ghost per rank>
      S <hist> <opindex> DEAD                 (the model says the ranks block forever; rest of the history is skipped)

  `HIST … fx=zvwf` (four 0/1 digits) selects the model variant: zeroPath, vardGuard, waitScan, fillMode repairs present.
-/
open PnVerif.NumRecs

def words (s : String) : List String := (s.splitOn " ").filter (· ≠ "")
def natOf (s : Option String) (d : Nat) : Nat := (s.bind String.toNat?).getD d
def kvNat (ws : List String) (key : String) (d : Nat) : Nat :=
  match ws.findSome? (fun w => if w.startsWith (key ++ "=") then some ((w.drop (key.length + 1)).toString) else none) with
  | some v => v.toNat?.getD d
  | none => d

def parsePut (ws : List String) : PutIn :=
  match ws with
  | "V" :: e :: _ => .valid (e.toNat?.getD 0)
  | "R" :: e :: _ => .valid (e.toNat?.getD 0)      -- NC_ERANGE is not fatal: the request counts as a completed write
  | "Z" :: _ => .zero
  | "E" :: _ => .argErr
  | "D" :: _ => .drvErr
  | _ => .zero
def parseVard (ws : List String) : VardIn :=
  match ws with
  | "V" :: e :: _ => .valid (e.toNat?.getD 0)
  | "R" :: e :: _ => .valid (e.toNat?.getD 0)
  | "N" :: e :: _ => .noData (e.toNat?.getD 0)
  | "E" :: _ => .argErr
  | _ => .noData 0
def parseSel (ws : List String) : Sel :=
  match ws with
  | "A" :: _ => .all
  | "L" :: ids => .ids (ids.filterMap String.toNat?)
  | _ => .ids []

def parseOp (line : String) : Option Op :=
  let parts := line.splitOn "|"
  let hd := words (parts.headD "")
  let per : List (List String) := (parts.drop 1).map words
  let idx {α : Type} (f : List String → α) (d : α) : Nat → α := fun i => ((per[i]?).map f).getD d
  match hd with
  | ["putAll"] => some (.putAll (idx parsePut .zero))
  | ["vardAll"] => some (.vardAll (idx parseVard (.noData 0)))
  | "putIndep" :: r :: e :: _ => some (.putIndep (r.toNat?.getD 0) (e.toNat?.getD 0))
  | "vardIndep" :: r :: e :: _ => some (.putIndep (r.toNat?.getD 0) (e.toNat?.getD 0))   -- getput_vard, NC_REQ_INDEP: same local update
  | "iput" :: r :: id :: isRec :: e :: rest =>
      -- keys of the sorted lead list, from the harness's schema: fvar (fixed) begins before the record variables rvar, qvar,
      -- svar (16 + 16 + 8 bytes per record, in this order); class R requests go to svar
      let isR := isRec == "1"
      let toS := rest.contains "R"
      let en := e.toNat?.getD 0
      let vb := if !isR then 0 else if toS then 132 else 100
      some (.iput (r.toNat?.getD 0) (id.toNat?.getD 0) isR en vb (if isR then vb + 40 * (en - 1) else 0))
  | ["waitAll"] => some (.waitAll (idx parseSel (.ids [])))
  | "wait" :: r :: sel => some (.wait (r.toNat?.getD 0) (parseSel sel))
  | ["fillRec"] => some (.fillRec (idx (fun ws => natOf ws.head? 0) 0))
  | ["beginIndep"] => some .beginIndep
  | ["endIndep"] => some .endIndep
  | ["sync"] => some .sync
  | ["syncNumrecs"] => some .syncNumrecs
  | ["redef"] => some .redef
  | ["reopen"] => some .reopen
  | _ => none

def showWorld (w : World) : String :=
  "nr=" ++ String.intercalate "," (w.ranks.map fun r => toString r.numrecs) ++ s!" hdr={w.hdr} hi={w.hi} own=" ++
    String.intercalate "," (w.ranks.map fun r => toString r.own)

structure St where
  hist : String := "-"
  fx : Fix := {}
  k : Nat := 0
  w : Option World := none

partial def loop (h : IO.FS.Stream) (out : IO.FS.Stream) (st : St) : IO Unit := do
  let line ← h.getLine
  if line.isEmpty then return ()
  let l := line.trimAscii.toString
  let ws := words l
  match ws with
  | "HIST" :: id :: _ =>
    let fs := ((ws.findSome? fun w => if w.startsWith "fx=" then some ((w.drop 3).toString) else none).getD "000").toList
    let fx : Fix := { zeroPath := fs[0]? == some '1', vardGuard := fs[1]? == some '1',
                      waitScan := fs[2]? == some '1', fillMode := fs[3]? == some '1' }
    loop h out { hist := id, fx := fx, k := 0, w := some (initWorld (kvNat ws "n" 2) (kvNat ws "nr0" 0)) }
  | "END" :: _ => loop h out { st with w := none }
  | [] => loop h out st
  | _ =>
    match st.w with
    | none => loop h out st
    | some w =>
      let k := st.k + 1
      match parseOp l with
      | none => out.putStrLn s!"S {st.hist} {k} BAD-OP"; loop h out { st with k := k }
      | some op =>
        match step st.fx w op with
        | none => out.putStrLn s!"S {st.hist} {k} DEAD"; loop h out { st with k := k, w := none }
        | some w' => out.putStrLn s!"S {st.hist} {k} {showWorld w'}"; loop h out { st with k := k, w := some w' }

def main : IO Unit := do
  let out ← IO.getStdout
  loop (← IO.getStdin) out {}
