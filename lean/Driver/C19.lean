import PnVerif.Model.Safety
import PnVerif.Model.HeaderText
/-
  C19 correspondence driver.  One request per line on stdin, one answer per line on stdout.

    VARIANT int63 <0|1>  1: the tree carries the repair of B10-3/B10-5/B10-6 (64-bit header fields with the sign
                       bit set and begin + len > 2^63-1 refused with NC_ENOTNC: Safety.getBodyS / postPassS);
                       answers VARIANT int63 <0|1>.  Default 0 = the code as it stands.
    VARIANT eof <0|1>    1: the tree carries the repair of F14 (a header read beyond the end of the file is refused with
                       NC_ENOTNC: Safety.runE / runWE); answers VARIANT eof <0|1>.  Default 0.
    OPEN <hexfile>     what ncmpi_open + the inquiry functions report for these bytes according to
                       the model (Safety.openGuardedV, limit 64 KiB beyond the end of the file):
        ERR <NC code> F <bytes requested by hdr_fetch | ->
        OK <fmt> <numrecs|-> <ndims> <nvars> <ngatts> <unlimdim> D <len>... V <ndims> <type> <begin> <natts> <dimid>... ; ... F <bytes requested by hdr_fetch>
        BIG <copy|count> <stream position the offending read would reach>
      each followed by ` WIDE` when a 64-bit header word ≥ 2^63 was read (outside the modelled range)
    TRACE <chunk> <hexfile>   instrumented window run (Safety.decodeTrace):
        <number of accesses> <number of unsafe accesses> <stuck: true|false> <number of fetches> <bytesFetched>
        BIG   (the header announces data more than 64 KiB beyond the end of the file: not traced)

  64-bit fields are printed as the C prints them (two's complement, `long long`).
-/
open PnVerif PnVerif.Spec PnVerif.Header PnVerif.HeaderText PnVerif.Safety

def asSigned (n : Nat) : Int := if n ≥ 2 ^ 63 then (n : Int) - 2 ^ 64 else n

def showVar19 (v : Var) : String :=
  String.intercalate " " ([toString v.dimids.length, toString v.xtype.code, toString (asSigned v.begin),
    toString v.atts.length] ++ (v.dimids.take 64).map toString ++ [";"])

def unlimOf (ds : List Dim) : Option Nat := ds.findIdx? (fun d => d.size == 0)

def wd (w : Bool) : String := if w then " WIDE" else ""

def showOpen (v : Variant) (file : Bytes) : String :=
  match openGuardedV v 65536 file with
  | .big b m w => s!"BIG {if b then "copy" else "count"} {m}{wd w}"
  | .err e w =>
    let f := match e with
      | .hdr _ => toString (bytesFetchedV v 262144 file)
      | _ => "-"
    s!"ERR {e.code} F {f}{wd w}"
  | .ok h _ w =>
    let u := unlimOf h.dims
    let nr := match u with | some _ => toString (asSigned h.numrecs) | none => "-"
    let ui : Int := match u with | some i => i | none => -1
    let ds := String.intercalate " " ("D" :: h.dims.map (fun d => toString (asSigned d.size)))
    let vs := String.intercalate " " ("V" :: h.vars.map showVar19)
    s!"OK {h.fmt.version} {nr} {h.dims.length} {h.vars.length} {h.gatts.length} {ui} {ds} {vs} F {bytesFetchedV v 262144 file}{wd w}"

def showTrace (chunk : Nat) (file : Bytes) : String :=
  -- the instrumented run follows the zero-extending reader: a file that announces data far beyond its end is not traced
  match openGuardedS false 65536 file with
  | .big _ _ _ => "BIG"
  | _ =>
  let t := decodeTrace chunk file
  let bad := (t.filter (fun a => ¬ a.Safe)).length
  let nf := (t.filter (fun a => a.kind == .readDst)).length
  s!"{t.length} {bad} {decodeStuck chunk file} {nf} {bytesFetched chunk file}"

def step (v : Variant) (line : String) : String :=
  match tokens line.trimAscii.toString with
  | ["OPEN", hex] =>
    match ofHex hex with
    | some f => showOpen v f
    | none => "bad-hex"
  | ["TRACE", c, hex] =>
    match c.toNat?, ofHex hex with
    | some chunk, some f => showTrace chunk f
    | _, _ => "bad-args"
  | _ => "bad-op"

partial def loop (h : IO.FS.Stream) (out : IO.FS.Stream) (v : Variant) : IO Unit := do
  let line ← h.getLine
  if line.isEmpty then return ()
  match tokens line.trimAscii.toString with
  | ["VARIANT", "int63", x] =>
    out.putStrLn s!"VARIANT int63 {x}"
    loop h out { v with int63 := (x == "1") }
  | ["VARIANT", "eof", x] =>
    out.putStrLn s!"VARIANT eof {x}"
    loop h out { v with eof := (x == "1") }
  | _ =>
    out.putStrLn (step v line)
    loop h out v

def main : IO Unit := do
  let out ← IO.getStdout
  loop (← IO.getStdin) out Variant.current
