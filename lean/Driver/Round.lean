import PnVerif.Base.FV
/-
  Executable IEEE-754 binary32/binary64 codecs and round-to-nearest-even, used by the
  correspondence drivers only (the theorems keep `Rounding` abstract).  Core Lean only.
-/
namespace PnVerif.Round
open PnVerif

def pow2 (e : Int) : Rat :=
  if e ≥ 0 then ((2 ^ e.toNat : Nat) : Rat) else 1 / ((2 ^ (-e).toNat : Nat) : Rat)

/-- floor(log2 (n/d)) for n, d > 0 -/
def ilog2 (n d : Nat) : Int :=
  let e0 : Int := (Nat.log2 n : Int) - (Nat.log2 d : Int)
  let le (e : Int) : Bool := if e ≥ 0 then (2 ^ e.toNat) * d ≤ n else d ≤ n * 2 ^ ((-e).toNat)
  if le (e0 + 1) then e0 + 1 else if le e0 then e0 else e0 - 1

def roundHalfEven (N D : Nat) : Nat :=
  let q := N / D
  let r := N % D
  if 2 * r < D then q else if 2 * r > D then q + 1 else if q % 2 == 0 then q else q + 1

/-- round a rational to a binary format with `mbits` stored mantissa bits -/
def roundBin (mbits : Nat) (emin emax : Int) (q : Rat) : FV :=
  if q = 0 then .fin 0 else
  let neg := q < 0
  let n := q.num.natAbs
  let d := q.den
  let e := ilog2 n d
  let qe : Int := (max e emin) - (mbits : Int)
  let (N, D) := if qe ≥ 0 then (n, d * 2 ^ qe.toNat) else (n * 2 ^ (-qe).toNat, d)
  let m := roundHalfEven N D
  let val : Rat := (m : Rat) * pow2 qe
  if val ≥ pow2 (emax + 1) then (if neg then .ninf else .pinf)
  else .fin (if neg then -val else val)

def f32 (q : Rat) : FV := roundBin 23 (-126) 127 q
def f64 (q : Rat) : FV := roundBin 52 (-1022) 1023 q
def ieee : Rounding := { f32 := f32, f64 := f64 }

/-- bits of an exactly representable value; none if `v` is not representable -/
def encode (mbits ebits : Nat) (v : FV) : Option Nat :=
  let bias : Int := (2 ^ (ebits - 1) - 1 : Nat)
  let emin : Int := 1 - bias
  let expAll : Nat := 2 ^ ebits - 1
  match v with
  | .nan => some (expAll * 2 ^ mbits + 2 ^ (mbits - 1))
  | .pinf => some (expAll * 2 ^ mbits)
  | .ninf => some (2 ^ (mbits + ebits) + expAll * 2 ^ mbits)
  | .fin q =>
    if q = 0 then some 0 else
    let sign : Nat := if q < 0 then 2 ^ (mbits + ebits) else 0
    let n := q.num.natAbs
    let d := q.den
    let e := ilog2 n d
    let a : Rat := if q < 0 then -q else q
    if e < emin then
      let mant := a / pow2 (emin - mbits)
      if mant.den = 1 then some (sign + mant.num.natAbs) else none
    else
      let mant := a / pow2 (e - mbits)
      if mant.den = 1 ∧ e ≤ bias then
        some (sign + ((e + bias).toNat) * 2 ^ mbits + (mant.num.natAbs - 2 ^ mbits))
      else none

def decode (mbits ebits : Nat) (bits : Nat) : FV :=
  let bias : Int := (2 ^ (ebits - 1) - 1 : Nat)
  let sign := (bits / 2 ^ (mbits + ebits)) % 2
  let ex := (bits / 2 ^ mbits) % 2 ^ ebits
  let mant := bits % 2 ^ mbits
  if ex = 2 ^ ebits - 1 then
    if mant = 0 then (if sign = 1 then .ninf else .pinf) else .nan
  else
    let mag : Rat :=
      if ex = 0 then (mant : Rat) * pow2 (1 - bias - mbits)
      else ((2 ^ mbits + mant : Nat) : Rat) * pow2 ((ex : Int) - bias - mbits)
    .fin (if sign = 1 then -mag else mag)

def enc32 := encode 23 8
def enc64 := encode 52 11
def dec32 := decode 23 8
def dec64 := decode 52 11

def hexDigit (c : Char) : Option Nat :=
  if '0' ≤ c ∧ c ≤ '9' then some (c.toNat - '0'.toNat)
  else if 'a' ≤ c ∧ c ≤ 'f' then some (c.toNat - 'a'.toNat + 10)
  else if 'A' ≤ c ∧ c ≤ 'F' then some (c.toNat - 'A'.toNat + 10)
  else none

def parseHex (s : String) : Option Nat :=
  let s := if s.startsWith "0x" then (s.drop 2).toString else s
  s.foldl (fun acc c => match acc, hexDigit c with
    | some a, some d => some (a * 16 + d)
    | _, _ => none) (some 0)

def toHex (n : Nat) : String := "0x" ++ String.ofList (Nat.toDigits 16 n)

end PnVerif.Round
