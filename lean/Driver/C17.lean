import PnVerif.Model.IdTable
/-
  C17 correspondence driver: same request lines as harness/c17_life.c, answered by the id-table model
  (Model/IdTable.lean) with a small per-file object (counts, mode flags, pending requests).

    CFG <nullCheck 0|1> <NC_MAX_NFILES> [<abortCancels 0|1>]   selects the code variants the library follows
                                             (PNC_check_id with/without NULL test; ncmpio_abort with/without cancel)
    (all other requests: see harness/c17_life.c)
-/
open PnVerif.IdTable

namespace C17

structure FSt where
  k : Nat
  ndims : Nat := 0
  nvars : Nat := 0
  natts : Nat := 0
  indef : Bool := false
  fresh : Bool := false      -- created, initial define mode never left: abort deletes the file
  rdonly : Bool := false
  /-- SETUP done: variables fx rc sm rs exist -/
  io : Bool := false
  /-- pending nonblocking get / put requests (put includes bput), pending bput, pending puts on record variables -/
  pget : Nat := 0
  pput : Nat := 0
  pbput : Nat := 0
  precput : Nat := 0
  /-- number of records (numrecs) -/
  nrecs : Nat := 0
  attached : Bool := false
  /-- the harness still holds put buffers of this file (released and compared at close / abort / wait_all / cancel all) -/
  heldput : Bool := false
  /-- kind of the last MREQ request not yet ended by id: 0 none, 1 iget, 2 iput, 3 bput -/
  lastm : Nat := 0
  /-- bytes of the attached buffer in use -/
  abufUsed : Nat := 0

structure W where
  nullCheck : Bool := false
  /-- code variant: ncmpio_abort cancels pending requests and reports NC_EPENDING like ncmpio_close -/
  abortCancels : Bool := false
  tab : Tab FSt := init FSt 1024
  exist : List Bool := List.replicate 8 false
  store : List (Nat × Nat × Nat × Nat × Bool) := List.replicate 8 (0, 0, 0, 0, false)

def nat! (s : String) : Nat := s.toNat?.getD 0
def int! (s : String) : Int := s.toInt?.getD 0

def outStr : Outcome → String
  | .ret e => toString e
  | .crash => "SIG11"

/-- the per-file part of an API call: object transformer + error code -/
def callFn (kind : String) : Option (FSt → FSt × Int) :=
  match kind with
  | "NDIMS" | "NVARS" | "INQPATH" | "INQFORMAT" => some (fun p => (p, 0))
  | "INQATT" | "GETVAR" | "BEGININDEP" => some (fun p => (p, 0))   -- used in probes of closed ids only
  | "DEFDIM" => some (fun p => if p.indef then ({ p with ndims := p.ndims + 1 }, 0) else (p, -38))
  | "DEFVAR" => some (fun p => if p.indef then ({ p with nvars := p.nvars + 1 }, 0) else (p, -38))
  | "PUTATT" => some (fun p => if p.rdonly then (p, -37) else if p.indef then ({ p with natts := p.natts + 1 }, 0) else (p, -38))
  | "ENDDEF" => some (fun p => if p.indef then ({ p with indef := false, fresh := false }, 0) else (p, -38))
  | "REDEF" => some (fun p => if p.rdonly then (p, -37) else if p.indef then (p, -39) else ({ p with indef := true }, 0))
  | "SYNC" => some (fun p => if p.indef then (p, -39) else (p, 0))
  | "SETUP" => some (fun p => if p.indef then ({ p with ndims := p.ndims + 3, nvars := p.nvars + 6, io := true }, 0) else (p, -38))
  | "IPUTFX" => some (fun p => (p, 0))   -- used in probes of closed ids only
  | "ATTACH" => some (fun p => if p.attached then (p, -216) else ({ p with attached := true, abufUsed := 0 }, 0))
  | "DETACH" => some (fun p => if ¬ p.attached then (p, -217) else if p.pbput > 0 then (p, -218)
                              else ({ p with attached := false }, 0))
  | "CANCELGET" => some (fun p => ({ p with pget := 0, lastm := if p.lastm = 1 then 0 else p.lastm }, 0))
  | "CANCELPUT" => some (fun p => ({ p with pput := 0, pbput := 0, precput := 0, abufUsed := 0,
                                            lastm := if p.lastm = 1 then 1 else 0 }, 0))
  | "CANCELALL" => some (fun p => ({ p with pget := 0, pput := 0, pbput := 0, precput := 0, abufUsed := 0, lastm := 0,
                                            heldput := false }, 0))
  | "WAITID" | "CANCELID" => some (fun p =>
      if p.lastm = 1 then ({ p with pget := p.pget - 1, lastm := 0 }, 0)
      else if p.lastm = 2 then ({ p with pput := p.pput - 1, lastm := 0 }, 0)
      else if p.lastm = 3 then ({ p with pput := p.pput - 1, pbput := p.pbput - 1, lastm := 0 }, 0)
      else (p, 0))
  | "WAITALL" => some (fun p => if p.indef then (p, -39)
                               else ({ p with pget := 0, pput := 0, pbput := 0, precput := 0, abufUsed := 0, lastm := 0, heldput := false,
                                              nrecs := if p.precput > 0 then max p.nrecs 1 else p.nrecs }, 0))
  | _ => none

/-- the value printed after the error code by value-returning calls -/
def callVal (kind : String) (p : FSt) : String :=
  match kind with
  | "NDIMS" => s!" {p.ndims}"
  | "NVARS" => s!" {p.nvars}"
  | "INQPATH" => s!" c17_{p.k}.nc"
  | "INQFORMAT" => " 1"
  | _ => ""

def badVal (kind : String) : String :=
  match kind with
  | "NDIMS" | "NVARS" | "INQFORMAT" => " -1"
  | "INQPATH" => " -"
  | _ => ""

def closeErr (p : FSt) : Int := (closeStatus 0 0 p.pget p.pput 0 0 0).1

/-- nonblocking request on one of the SETUP variables (IOP id kind var) -/
def iopFn (kind var : String) : FSt → FSt × Int := fun p =>
  let isPut := kind != "IGET"
  let isRec := var == "rc" ∨ var == "rs"
  let nbytes : Nat := if var == "fx" ∨ var == "rc" then 8192 else 32
  if ¬ p.io then (p, -49)
  else if isPut ∧ p.rdonly then (p, -37)
  else if p.indef then (p, -39)
  else if kind == "IGET" then
    (if isRec ∧ p.nrecs = 0 then (p, -40) else ({ p with pget := p.pget + 1 }, 0))
  else if kind == "BPUT" then
    (if ¬ p.attached then (p, -217)
     else if 65536 - p.abufUsed < nbytes then (p, -219)
     else ({ p with pput := p.pput + 1, pbput := p.pbput + 1, abufUsed := p.abufUsed + nbytes, heldput := true,
                    precput := if isRec then p.precput + 1 else p.precput }, 0))
  else ({ p with pput := p.pput + 1, heldput := true, precput := if isRec then p.precput + 1 else p.precput }, 0)

/-- MREQ id kind: varm + transposed imap + derived buftype, 4 elements of m2 -/
def mreqFn (kind : String) : FSt → FSt × Int := fun p =>
  if ¬ p.io then (p, -49)
  else if kind != "IGET" ∧ p.rdonly then (p, -37)
  else if p.indef then (p, -39)
  else if kind == "IGET" then ({ p with pget := p.pget + 1, lastm := 1 }, 0)
  else if kind == "BPUT" then
    (if ¬ p.attached then (p, -217)
     else if 65536 - p.abufUsed < 16 then (p, -219)
     else ({ p with pput := p.pput + 1, pbput := p.pbput + 1, abufUsed := p.abufUsed + 16, heldput := true, lastm := 3 }, 0))
  else ({ p with pput := p.pput + 1, heldput := true, lastm := 2 }, 0)

def doCreate (w : W) (p : FSt) (derr : Int) : W × String :=
  let (t, o, id) := step w.nullCheck w.tab (.create p derr)
  ({ w with tab := t }, s!"{outStr o} {id}")

/-- in-process call on id; `probe`: executed in a forked child, so no state change survives -/
def doCall (w : W) (id : Int) (kind : String) (probe : Bool) : W × String :=
  if kind == "CLOSE" ∨ kind == "ABORT" then
    let f : FSt → Int := if kind == "CLOSE" ∨ w.abortCancels then closeErr else fun _ => 0
    match checkId w.nullCheck w.tab id with
    | .ok p =>
      if probe then (w, "probe-on-open-id") else
      let (t, o, _) := step w.nullCheck w.tab (.close id f)
      let w := { w with tab := t }
      let w := if kind == "CLOSE" then { w with store := w.store.set p.k (p.ndims, p.nvars, p.natts, p.nrecs, p.io) }
               else if p.fresh then { w with exist := w.exist.set p.k false }
               else if ¬ p.indef then { w with store := w.store.set p.k (p.ndims, p.nvars, p.natts, p.nrecs, p.io) }
               else w
      (w, outStr o ++ (if p.heldput then " bufs=ok" else ""))
    | _ =>
      let (_, o, _) := step w.nullCheck w.tab (.close id f)
      (w, outStr o)
  else match callFn kind with
    | none => (w, "bad-kind")
    | some f =>
      match checkId w.nullCheck w.tab id with
      | .ok p =>
        if probe then (w, "probe-on-open-id") else
        let (t, o, _) := step w.nullCheck w.tab (.call id f)
        let p' := (f p).1
        let w := { w with tab := t }
        let w := if kind == "ENDDEF" ∧ (f p).2 = 0 then { w with store := w.store.set p.k (p'.ndims, p'.nvars, p'.natts, p'.nrecs, p'.io) } else w
        (w, outStr o ++ (if (f p).2 = 0 then callVal kind p' else badVal kind) ++
            (if (kind == "WAITID" ∨ kind == "CANCELID") ∧ (f p).2 = 0 then " 0" else "") ++
            (if (kind == "WAITALL" ∨ kind == "CANCELALL") ∧ (f p).2 = 0 ∧ p.heldput then " bufs=ok" else ""))
      | _ =>
        let (_, o, _) := step w.nullCheck w.tab (.call id f)
        (w, match o with | .crash => "SIG11" | .ret e => toString e ++ badVal kind)

def occupied (t : Tab FSt) : List (Nat × FSt) :=
  (List.range t.slots.length).filterMap (fun i => match t.slots[i]? with | some (some p) => some (i, p) | _ => none)

def stepLine (w : W) (line : String) : W × String :=
  match line.trimAscii.toString.splitOn " " with
  | ["CFG", b, n] => ({ w with nullCheck := b == "1", tab := init FSt (nat! n) }, "cfg")
  | ["CFG", b, n, a] => ({ w with nullCheck := b == "1", abortCancels := a == "1", tab := init FSt (nat! n) }, "cfg")
  | ["CREATE", k] =>
    let k := nat! k % 8
    let (w, s) := doCreate w { k := k, indef := true, fresh := true } 0
    if s.startsWith "0 " then ({ w with exist := w.exist.set k true, store := w.store.set k (0, 0, 0, 0, false) }, s) else (w, s)
  | ["CREATEX", k] =>
    let k := nat! k % 8
    if (w.exist[k]?).getD false then doCreate w { k := k } (-35)
    else
      let (w, s) := doCreate w { k := k, indef := true, fresh := true } 0
      if s.startsWith "0 " then ({ w with exist := w.exist.set k true, store := w.store.set k (0, 0, 0, 0, false) }, s) else (w, s)
  | ["OPEN", k, wr] =>
    let k := nat! k % 8
    if ¬ (w.exist[k]?).getD false then (w, "-220 -1")      -- ncmpi_inq_file_format fails before an id is taken
    else
      let (nd, nv, na, nr, io) := (w.store[k]?).getD (0, 0, 0, 0, false)
      doCreate w { k := k, ndims := nd, nvars := nv, natts := na, nrecs := nr, io := io, rdonly := wr == "0" } 0
  | ["OPENJUNK"] => (w, "FAIL -1")
  | ["OPENMISSING"] => (w, "FAIL -1")
  | ["CREATEBAD", v] =>
    if v == "1" then (w, "FAIL -1")                          -- NC_EINVAL_CMODE: rejected before an id is taken
    else
      let (w, _) := doCreate w { k := 0 } (-220)             -- driver create fails: id taken and given back
      (w, "FAIL -1")
  | ["OPENTRUNC", _, _] => (w, "done")
  | ["PROBE", id, kind] => doCall w (int! id) kind true
  | ["FILL", k, n] =>
    let k := nat! k % 8
    let (nd, nv, na, _, _) := (w.store[k]?).getD (0, 0, 0, 0, false)
    let rec go (w : W) (n : Nat) (acc : List String) : W × List String :=
      match n with
      | 0 => (w, acc.reverse)
      | n + 1 =>
        let (t, o, id) := step w.nullCheck w.tab (.create { k := k, ndims := nd, nvars := nv, natts := na, rdonly := true } 0)
        go { w with tab := t } n (s!"{outStr o}:{id}" :: acc)
    let (w, l) := go w (nat! n) []
    (w, " ".intercalate l)
  | ["IOP", id, kind, var] =>
    match checkId w.nullCheck w.tab (int! id) with
    | .ok _ =>
      let (t, o, _) := step w.nullCheck w.tab (.call (int! id) (iopFn kind var))
      ({ w with tab := t }, outStr o)
    | .badid => (w, "-33")
    | .null => (w, "SIG11")
  | ["MREQ", id, kind] =>
    match checkId w.nullCheck w.tab (int! id) with
    | .ok _ =>
      let (t, o, _) := step w.nullCheck w.tab (.call (int! id) (mreqFn kind))
      ({ w with tab := t }, outStr o)
    | .badid => (w, "-33")
    | .null => (w, "SIG11")
  | ["ZREQ", _, form] =>
    -- transfers nothing, queues nothing: no state change.  The error code is the one the form's name announces:
    -- zero-length requests succeed, argument errors are reported as documented.
    let code : Int :=
      if form.endsWith "_EEDGE" then -57 else if form.endsWith "_EINVALCOORDS" then -40
      else if form.endsWith "_ESTRIDE" then -58 else if form.endsWith "_ECHAR" then -56 else 0
    (w, s!"z {code}")
  | ["SNAP"] =>
    let occ := occupied w.tab
    (w, s!"0 {w.tab.num}" ++ String.join (occ.map (fun (i, p) => s!" {i}:{p.ndims}:{p.nvars}:{p.natts}")))
  | ["LEAK"] => (w, "malloc=0 type=0 comm=0 info=0 file=0")
  | [kind, id] => doCall w (int! id) kind false
  | _ => (w, "bad-op")

partial def loop (h : IO.FS.Stream) (out : IO.FS.Stream) (w : W) : IO Unit := do
  let line ← h.getLine
  if line.isEmpty then return ()
  let (w', ans) := stepLine w line
  out.putStrLn ans
  out.flush
  loop h out w'

end C17

def main : IO Unit := do
  let out ← IO.getStdout
  C17.loop (← IO.getStdin) out {}
