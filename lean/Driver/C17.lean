/- C17 correspondence driver (stub: replaced when the property's model is built) -/
def main : IO Unit := IO.println "stub"
