import PnVerif.Model.Scs
import PnVerif.Spec.InBounds
import PnVerif.Model.IntraNode
/-
  C15 correspondence driver.  One request per line on stdin, one answer per line on stdout.

    K strict classic isrec isread api nd shape.. S|SN start.. C|CN count.. T|TN stride..
        -> <checkSCS c64> <checkSCS exact> <InBounds 0|1> <checkSCS divForm (repaired check_EEDGE)>
    A strict classic isrec isread api begin xsz recsize numrecs nd shape.. S|SN.. C|CN.. T|TN..
        -> <checkSCS c64> <numrecs after a put> <n> <off_1> .. <off_n>      (offsets only when accepted)

    F isrec begin xsz recsize nd shape.. S start.. C count.. T stride..        (intra-node aggregation: flatten_req)
        -> p=<off:len,...  pairs of IntraNode.flattenReq> e=<element offsets of the request, Access.elemOff in request order>
    Q recsize nreq { lead isrec begin xsz nd shape.. S start.. C count.. T stride.. }   (flatten_reqs, nonblocking path)
        -> p=<pairs of IntraNode.flattenReqs> e=<element offsets of the requests in queue order>
    M n off:len ...                                                          (the aggregator's sort/merge/pack/coalesce)
        -> s=<off:len:buf,... sorted triples> a=<merged triples> f=<off:len,... file type>

  api: 1 var1, 2 vara, 3 vars, 4 varm.  For a record variable shape[0] is the current numrecs.
-/
open PnVerif.Scs PnVerif.Spec.InBounds

structure Parsed where
  c : Ctx
  r : Req
  rest : List String

def takeInts (n : Nat) (l : List String) : Option (List Int × List String) :=
  if l.length < n then none else
  let xs := (l.take n).filterMap String.toInt?
  if xs.length = n then some (xs, l.drop n) else none

def b (s : String) : Bool := s != "0"

/-- parse `nd shape.. S|SN start.. C|CN count.. T|TN stride..` -/
def parseReq (l : List String) : Option Req :=
  match l with
  | ndS :: l1 =>
    match ndS.toNat? with
    | none => none
    | some nd =>
      match takeInts nd l1 with
      | none => none
      | some (shape, l2) =>
        let optVec (tag : String) (l : List String) : Option (Option (List Int) × List String) :=
          match l with
          | t :: l' =>
            if t == tag then (takeInts nd l').map (fun p => (some p.1, p.2))
            else if t == tag ++ "N" then some (none, l')
            else none
          | [] => none
        match optVec "S" l2 with
        | none => none
        | some (st, l3) =>
          match optVec "C" l3 with
          | none => none
          | some (ct, l4) =>
            match optVec "T" l4 with
            | none => none
            | some (sd, _) =>
              let z := List.replicate nd (0 : Int)
              let stv := st.getD z
              let ctv := ct.getD z
              let sdv := sd.getD z
              let dims := (List.range nd).map (fun i =>
                ({ shape := shape.getD i 0, start := stv.getD i 0, count := ctv.getD i 0, stride := sdv.getD i 0 } : D))
              some { dims := dims, startNull := st.isNone, hasCount := ct.isSome, hasStride := sd.isSome }
  | [] => none

def mkCtx (strict classic isrec isread api : String) : Ctx :=
  { strict := b strict, classic := b classic, isRec := b isrec, isRead := b isread,
    needCount := api == "2" || api == "3" || api == "4" }

def doK (strict classic isrec isread api : String) (l : List String) : String :=
  match parseReq l with
  | none => "bad-op"
  | some r =>
    let c := mkCtx strict classic isrec isread api
    let inb : Nat := if decide (InBounds c r) then 1 else 0
    s!"{checkSCS c64 c r} {checkSCS exact c r} {inb} {checkSCS divForm c r}"

def doA (strict classic isrec isread api : String) (l : List String) : String :=
  match l with
  | bg :: xs :: rs :: nr :: l' =>
    match bg.toNat?, xs.toNat?, rs.toNat?, nr.toInt?, parseReq l' with
    | some bg, some xs, some rs, some nr, some r =>
      let c := mkCtx strict classic isrec isread api
      let e := checkSCS c64 c r
      if e != 0 then s!"{e} {nr} 0" else
      let v : VarLayout := { begin := bg, xsz := xs, recsize := rs, isRec := c.isRec,
                             shape := r.dims.map (fun d => d.shape.toNat) }
      -- refuse to expand absurd requests (the harness never sends them, the F15 witness is one)
      let n := r.dims.foldl (fun a d => a * (effCount r d).toNat) 1
      if n > 100000 then s!"{e} {nr} -1" else
      let fp := footprint v r
      let nn := if c.isRec && !c.isRead then newNumrecs nr r else nr
      s!"{e} {nn} {fp.length}" ++ String.join (fp.map (fun o => s!" {o}"))
    | _, _, _, _, _ => "bad-op"
  | _ => "bad-op"

def commaL (xs : List String) : String := if xs.isEmpty then "-" else String.intercalate "," xs

def natVec (tag : String) (nd : Nat) (l : List String) : Option (List Nat × List String) :=
  match l with
  | t :: l' =>
    if t != tag || l'.length < nd then none else
    let xs := (l'.take nd).filterMap String.toNat?
    if xs.length = nd then some (xs, l'.drop nd) else none
  | [] => none

def doF (l : List String) : String :=
  match l with
  | ir :: bg :: xs :: rs :: ndS :: l1 =>
    match bg.toNat?, xs.toNat?, rs.toNat?, ndS.toNat? with
    | some bg, some xs, some rs, some nd =>
      let shape := (l1.take nd).filterMap String.toNat?
      if shape.length != nd then "bad-op" else
      match natVec "S" nd (l1.drop nd) with
      | none => "bad-op"
      | some (st, l2) =>
        match natVec "C" nd l2 with
        | none => "bad-op"
        | some (ct, l3) =>
          match natVec "T" nd l3 with
          | none => "bad-op"
          | some (sd, _) =>
            let v : PnVerif.Access.VarLay := { begin := bg, xsz := xs, shape := shape, isRec := b ir, recsize := rs }
            let ps := PnVerif.IntraNode.flattenReq v st ct sd
            let es := (PnVerif.Access.enumIdx st ct sd).map (PnVerif.Access.elemOff v)
            s!"p={commaL (ps.map (fun p => s!"{p.1}:{p.2}"))} e={commaL (es.map toString)}"
    | _, _, _, _ => "bad-op"
  | _ => "bad-op"

/-- parse `nreq` requests `lead isrec begin xsz nd shape.. S.. C.. T..` -/
def parseQ (rs : Nat) : Nat → List String → Option (List PnVerif.IntraNode.PReq)
  | 0, _ => some []
  | n + 1, _lead :: ir :: bg :: xs :: ndS :: l1 =>
    match bg.toNat?, xs.toNat?, ndS.toNat? with
    | some bg, some xs, some nd =>
      let shape := (l1.take nd).filterMap String.toNat?
      if shape.length != nd then none else
      match natVec "S" nd (l1.drop nd) with
      | none => none
      | some (st, l2) =>
        match natVec "C" nd l2 with
        | none => none
        | some (ct, l3) =>
          match natVec "T" nd l3 with
          | none => none
          | some (sd, l4) =>
            match parseQ rs n l4 with
            | none => none
            | some qs => some (⟨{ begin := bg, xsz := xs, shape := shape, isRec := b ir, recsize := rs }, st, ct, sd⟩ :: qs)
    | _, _, _ => none
  | _, _ => none

def doQ (l : List String) : String :=
  match l with
  | rsS :: nS :: rest =>
    match rsS.toNat?, nS.toNat? with
    | some rs, some n =>
      match parseQ rs n rest with
      | none => "bad-op"
      | some qs =>
        let ps := PnVerif.IntraNode.flattenReqs qs
        let es := qs.flatMap (fun q => (PnVerif.Access.enumIdx q.start q.count q.stride).map (PnVerif.Access.elemOff q.v))
        s!"p={commaL (ps.map (fun p => s!"{p.1}:{p.2}"))} e={commaL (es.map toString)}"
    | _, _ => "bad-op"
  | _ => "bad-op"

def parseOL (s : String) : Option (Int × Int) :=
  match s.splitOn ":" with
  | [a, c] => match a.toInt?, c.toInt? with
    | some a, some c => some (a, c)
    | _, _ => none
  | _ => none

def doM (l : List String) : String :=
  match l with
  | _n :: rest =>
    let ins := rest.filterMap parseOL
    if ins.length != rest.length then "bad-op" else
    let segs := PnVerif.IntraNode.mkSegs ins
    let sorted := PnVerif.Merge.sortSegs segs
    let ag := PnVerif.IntraNode.aggrPass1 sorted
    let fp := PnVerif.IntraNode.filePairs ag
    let sh := fun (s : PnVerif.Merge.Seg) => s!"{s.off}:{s.len}:{s.buf}"
    s!"s={commaL (sorted.map sh)} a={commaL (ag.map sh)} f={commaL (fp.map (fun p => s!"{p.1}:{p.2}"))}"
  | [] => "bad-op"

def step (line : String) : String :=
  match (line.trimAscii.toString.splitOn " ").filter (· != "") with
  | "K" :: strict :: classic :: isrec :: isread :: api :: l => doK strict classic isrec isread api l
  | "A" :: strict :: classic :: isrec :: isread :: api :: l => doA strict classic isrec isread api l
  | "F" :: l => doF l
  | "M" :: l => doM l
  | "Q" :: l => doQ l
  | _ => "bad-op"

partial def loop (h : IO.FS.Stream) (out : IO.FS.Stream) : IO Unit := do
  let line ← h.getLine
  if line.isEmpty then return ()
  out.putStrLn (step line)
  loop h out

def main : IO Unit := do
  let out ← IO.getStdout
  loop (← IO.getStdin) out
