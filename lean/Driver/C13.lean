import PnVerif.Model.Abuf
/-
  C13 correspondence driver: reads the op script of harness/c13_buf.c on stdin and prints, for every
  op, the line the harness prints as far as it is determined by the model (attached-buffer state,
  inq_buffer_usage/size, which buffer goes to MPI-IO, swap flag, ncmpii_in_swapn on byte strings).
-/
open PnVerif PnVerif.Abuf

namespace C13Drv

def dumpS (s : S) : String :=
  match s.abuf with
  | none => " | abuf=none usage=E-217 size=E-217"
  | some a =>
    s!" | abuf={a.sizeAllocated}:{a.sizeUsed}:{a.tail}[" ++
      " ".intercalate (a.table.map (fun t => s!"{if t.isUsed then 1 else 0}.{t.reqSize}")) ++
      s!"] usage={a.sizeUsed} size={a.sizeAllocated}"

structure H where
  op : String := ""
  queued : Bool := false
  state : Nat := 0
deriving Inhabited

structure St where
  s : S := {}
  hint : Hint := .auto
  hs : Array H := Array.replicate 256 {}

def apiOf (k : Nat) : Api :=
  match k with
  | 0 => .blockingPut | 1 => .iput | 2 => .iputVarn | 3 => .bput | 5 => .putVard | _ => .bputVarn

/-- the trailing tokens of a vard line:
    ft coll em | filetypeNull filetypeSize fnelems ftypeMatches buftypeNull bufcount perType xsz -/
def vardArgs (toks : List String) (nc ns ct : Bool) : VardArgs :=
  let r := toks.reverse
  let g := fun (i : Nat) => (r[i]?.getD "0")
  let gi := fun (i : Nat) => ((g i).toInt?.getD 0)
  { filetypeNull := g 7 == "1", filetypeSize := gi 6, fnelems := gi 5, ftypeMatches := g 4 == "1",
    buftypeNull := g 3 == "1", bufcount := gi 2, perType := gi 1, contig := ct, needConvert := nc, needSwap := ns,
    xsz := (g 0).toNat?.getD 1, coll := g 9 == "1" }

def hexVal (c : Char) : Nat :=
  if c.isDigit then c.toNat - '0'.toNat
  else if 'a' ≤ c ∧ c ≤ 'f' then c.toNat - 'a'.toNat + 10
  else if 'A' ≤ c ∧ c ≤ 'F' then c.toNat - 'A'.toNat + 10 else 0

def parseHex : List Char → List UInt8
  | a :: b :: rest => UInt8.ofNat (hexVal a * 16 + hexVal b) :: parseHex rest
  | _ => []

def hexDigit (n : Nat) : Char := if n < 10 then Char.ofNat (n + 48) else Char.ofNat (n - 10 + 97)
def showHex (l : List UInt8) : String :=
  String.ofList (l.flatMap (fun b => [hexDigit (b.toNat / 16), hexDigit (b.toNat % 16)]))

def b01 (b : Bool) : String := if b then "1" else "0"

def step (st : St) (line : String) : St × List String :=
  let toks := (line.trimAscii.toString.splitOn " ").filter (· ≠ "")
  match toks with
  | ["S", es, ne, hx] =>
    let r := inSwapn (parseHex hx.toList) (ne.toInt?.getD 0) (es.toNat?.getD 0)
    (st, ["S " ++ showHex r])
  | "CASE" :: idx :: hint :: _ =>
    let h := if hint == "1" then Hint.enable else if hint == "2" then Hint.disable else Hint.auto
    let st' : St := { s := {}, hint := h, hs := Array.replicate 256 {} }
    (st', [s!"CASE {idx}" ++ dumpS st'.s])
  | ["END"] => (st, ["END"])
  | ["A", n] =>
    let r := st.s.attach (n.toInt?.getD 0)
    ({ st with s := r.1 }, [s!"A err={r.2}" ++ dumpS r.1])
  | ["D"] =>
    let r := st.s.detach
    ({ st with s := r.1 }, [s!"D_ err={r.2}" ++ dumpS r.1])
  | ["U"] => (st, ["U" ++ dumpS st.s])
  | op :: h :: kind :: nc :: ns :: ct :: im :: nb :: _ =>
    if op == "P" || op == "I" || op == "B" || op == "G" || op == "R" then
      let h := h.toNat?.getD 0
      let req : Req := { needConvert := nc == "1", needSwap := ns == "1", contig := ct == "1", imap := im == "1",
                         nbytes := nb.toInt?.getD 0 }
      let api := apiOf (kind.toNat?.getD 0)
      let isVard := (toks[9]?.getD "") == "d"
      if isVard && op == "P" then
        let a := vardArgs toks req.needConvert req.needSwap req.contig
        let o := putVard st.hint a []
        let u := putVardMpiUser st.hint a
        (st, [s!"P h{h} err={o.err} xbuf={if u then "user" else "own"} swapped={b01 (u && a.needSwap)} cnt={if u then toString o.mpiCount else "-"}" ++ dumpS st.s])
      else if isVard && op == "R" then
        let a := vardArgs toks req.needConvert req.needSwap req.contig
        let o := getVard a [] []
        ({ st with hs := st.hs.modify h (fun _ => { op := "R" }) },
         [s!"R h{h} err={o.err} xbuf={if getVardMpiUser a then "user" else "own"}" ++ dumpS st.s])
      else if op == "P" then
        (st, [s!"P h{h} err=0 xbuf={if mpiGetsUserBuf api st.hint req then "user" else "own"} swapped={b01 (swapFlag api st.hint req)}" ++ dumpS st.s])
      else if op == "R" then
        ({ st with hs := st.hs.modify h (fun _ => { op := "R" }) }, [s!"R h{h} err=0" ++ dumpS st.s])
      else if op == "G" then
        ({ st with hs := st.hs.modify h (fun _ => { op := "G", queued := true }) }, [s!"G h{h} err=0 queued=1" ++ dumpS st.s])
      else if op == "I" then
        let s' := st.s.iput h req.nbytes
        let f := swapFlag api st.hint req
        ({ st with s := s', hs := st.hs.modify h (fun _ => { op := "I", queued := true }) },
         [s!"I h{h} err=0 queued=1 xbuf={if usesUserBuf api st.hint req then "user" else "own"} flag={b01 f} swapped={b01 f}" ++ dumpS s'])
      else
        let r := st.s.bput h req.nbytes
        if r.2 != 0 then
          ({ st with hs := st.hs.modify h (fun _ => { op := "B" }) }, [s!"B h{h} err={r.2} queued=0" ++ dumpS r.1])
        else
          ({ st with s := r.1, hs := st.hs.modify h (fun _ => { op := "B", queued := true }) },
           [s!"B h{h} err=0 queued=1 xbuf=abuf flag=0 swapped=0" ++ dumpS r.1])
    else if op == "W" || op == "X" then
      -- here: h = num, the remaining tokens are handles
      let num := h.toInt?.getD 0
      let named := (toks.drop 2).map (fun t => t.toNat?.getD 0)
      let live := fun (k : Nat) => let x := st.hs[k]?.getD {}; x.queued && x.state == 0
      let all := (List.range 256).filter live
      let sel : List Nat :=
        if num ≥ 0 then (named.take num.toNat).filter live
        else if num == -1 then all
        else if num == -3 then all.filter (fun k => (st.hs[k]?.getD {}).op != "G")
        else all.filter (fun k => (st.hs[k]?.getD {}).op == "G")
      let writes := sel.filter (fun k => (st.hs[k]?.getD {}).op != "G")
      let s' :=
        if op == "W" then st.s.complete writes
        else if num ≥ 0 then st.s.cancel writes
        else if num == -2 then st.s
        else st.s.cancelAll
      let hs' := sel.foldl (fun a k => a.modify k (fun x => { x with state := if op == "W" then 1 else 2 })) st.hs
      ({ st with s := s', hs := hs' }, [s!"{op} err=0 n={sel.length}" ++ dumpS s'])
    else (st, ["bad-op"])
  | op :: num :: rest =>
    if op == "W" || op == "X" then
      -- short forms "W -1", "X -3", "W 1 5"
      let n := num.toInt?.getD 0
      let named := rest.map (fun t => t.toNat?.getD 0)
      let live := fun (k : Nat) => let x := st.hs[k]?.getD {}; x.queued && x.state == 0
      let all := (List.range 256).filter live
      let sel : List Nat :=
        if n ≥ 0 then (named.take n.toNat).filter live
        else if n == -1 then all
        else if n == -3 then all.filter (fun k => (st.hs[k]?.getD {}).op != "G")
        else all.filter (fun k => (st.hs[k]?.getD {}).op == "G")
      let writes := sel.filter (fun k => (st.hs[k]?.getD {}).op != "G")
      let s' :=
        if op == "W" then st.s.complete writes
        else if n ≥ 0 then st.s.cancel writes
        else if n == -2 then st.s
        else st.s.cancelAll
      let hs' := sel.foldl (fun a k => a.modify k (fun x => { x with state := if op == "W" then 1 else 2 })) st.hs
      ({ st with s := s', hs := hs' }, [s!"{op} err=0 n={sel.length}" ++ dumpS s'])
    else (st, ["bad-op"])
  | _ => (st, [])

partial def loop (h : IO.FS.Stream) (out : IO.FS.Stream) (st : St) : IO Unit := do
  let line ← h.getLine
  if line.isEmpty then return ()
  let (st', ls) := step st line
  for l in ls do out.putStrLn l
  loop h out st'

end C13Drv

def main : IO Unit := do
  C13Drv.loop (← IO.getStdin) (← IO.getStdout) {}
