import PnVerif.Model.Hints
/-
  C10 driver:  RA <envH> <envV> <envR> <argV> <argR> <numFix> <isRedef 0|1>  ->  <h> <v> <r>
  (hint values are given as they arrive in the info object: integers, may be negative; '-' = absent)
-/
open PnVerif.Hints

def hintOf (s : String) : Option Int := if s == "-" then none else s.toInt?

def step (line : String) : String :=
  match (line.trimAscii.toString.splitOn " ").filter (· != "") with
  | ["RA", eh, ev, er, av, ar, nf, rd] =>
    let o := resolveAlign { envH := parseAlignHint (hintOf eh), envV := parseAlignHint (hintOf ev), envR := parseAlignHint (hintOf er),
                            argV := av.toNat?.getD 0, argR := ar.toNat?.getD 0, numFixVars := nf.toNat?.getD 0, isRedef := rd == "1" }
    s!"{o.h} {o.v} {o.r}"
  | _ => "bad-op"

partial def loop (h : IO.FS.Stream) (out : IO.FS.Stream) : IO Unit := do
  let line ← h.getLine
  if line.isEmpty then return ()
  out.putStrLn (step line)
  loop h out

def main : IO Unit := do loop (← IO.getStdin) (← IO.getStdout)
