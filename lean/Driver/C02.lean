import PnVerif.Model.ReqQueue
import PnVerif.Model.Merge
import PnVerif.Model.Flatten
/-
  C02 correspondence driver.

    c02drv nb <rank> [flags] : stdin = the op script of harness/c02_nb.c, stdout = the lines that rank
                         prints which are determined by the queue model (everything except the
                         "D …" oracle lines)
    c02drv unit        : stdin = the requests of harness/c02_unit.c (merge_requests /
                         type_create_off_len called directly), stdout = the model's answers
-/
open PnVerif PnVerif.ReqQueue

namespace C02Drv

def showLead (l : Lead) : String :=
  s!"{l.c.id}.{l.nonleadOff}.{l.nonleadNum}.{if l.c.toFree then 1 else 0}"

def showQ (nm : String) (q : Q) : String :=
  s!"{nm}:{q.numLead},{q.numReqs},{q.maxId}[" ++ " ".intercalate (q.lead.map showLead) ++ "]{" ++
    " ".intercalate (q.nonlead.map (fun r => s!"{r.leadOff}:{r.s.nelems}:{r.s.xoff}")) ++ "}"

def dump (nc : NC) (single : Bool := true) : String :=
  " | " ++ showQ "P" nc.put ++ " " ++ showQ "G" nc.get ++ (if single then s!" R:{nc.numrecs}" else " R:*")

def showInts (l : List Int) : String := if l.isEmpty then "-" else ",".intercalate (l.map toString)

structure H where
  id : Int := -1
  erange : Bool := false
  posted : Bool := false
  state : Nat := 0
deriving Inhabited

structure St where
  begins : List Int := []
  recsize : Int := 0
  nc : NC := {}
  hs : Array H := Array.replicate 128 {}
  dead : Bool := false
  single : Bool := true
  V : Variant := {}

def St.dump (st : St) (nc : NC) : String := C02Drv.dump nc st.single

def tokId (st : St) (t : String) : Int :=
  if t.startsWith "N" then -1
  else if t.startsWith "U" then (t.drop 1).toString.toInt?.getD 0
  else match (t.drop 1).toString.toNat? with
       | some k => (st.hs[k]?.getD {}).id
       | none => -1

def isRec (v : Nat) : Bool := v == 2 || v == 3
def xszOf (v : Nat) : Int := [4, 2, 8, 4, 1, 4, 4, 4].getD v 1
def ndOf (v : Nat) : Nat := [2, 1, 2, 3, 1, 2, 0, 1].getD v 0

/-- the non-lead requests of one post, from the start/count tokens of the script line -/
def subsOf (h v : Nat) (api : String) (nr : Nat) (nums : List Int) : List Sub :=
  let nd := ndOf v
  let xsz := xszOf v
  if api == "n" then
    ((List.range nr).foldl (fun (acc : List Sub × Int) i =>
      let ct := (nums.drop (i * 2 * nd + nd)).take nd
      let ne := ct.foldl (· * ·) 1
      if ne == 0 then acc
      else
        let c0 := if isRec v then (ct.getD 0 1).toNat else 1
        (acc.1 ++ splitVarn h ne acc.2 xsz c0, acc.2 + ne * xsz)) ([], 0)).1
  else
    let ct := (nums.drop nd).take nd
    let ne := ct.foldl (· * ·) 1
    let c0 := if isRec v then (ct.getD 0 1).toNat else 1
    splitVarm h ne xsz c0

/-- apply the NC_ERANGE of the completed reads that convert out-of-range data -/
def applyErange (st : St) (done : List Lead) (sts : Option (List Int)) (err : Int) : Option (List Int) × Int :=
  done.foldl (fun (acc : Option (List Int) × Int) l =>
    let h := st.hs[l.c.tag]?.getD {}
    if h.erange then
      let s' := match acc.1, l.c.status with
        | some s, some i => some (if s[i]?.getD 0 == 0 then s.set i (-60) else s)
        | s, _ => s
      (s', if acc.2 == 0 then -60 else acc.2)
    else acc) (sts, err)

def markSpecDone (st : St) (hsl : List Nat) : St :=
  hsl.foldl (fun s h => { s with hs := s.hs.modify h (fun x => if x.posted then { x with state := 1 } else x) }) st

def doWait (st : St) (num : Int) (ids : List Int) (hasst : Bool) : St × WaitRes × Option (List Int) × Int :=
  let sts := if hasst then some (ids.map (fun _ => (777 : Int))) else none
  let r := wait st.nc num ids sts st.V
  let (s2, e2) := if r.err == 0 then applyErange st r.doneGet r.st r.err else (r.st, r.err)
  -- `state` is the SPEC's notion (exp lists of the script), exactly as in the C harness
  ({ st with nc := r.nc }, r, s2, e2)

def fmtRes (st : St) (tag : String) (err : Int) (num : Int) (ids : List Int) (sts : Option (List Int)) (nc : NC) : String :=
  let arr := if num ≥ 0 then ids else []
  let s := match sts with | some s => (if num ≥ 0 then showInts s else "-") | none => "-"
  s!"{tag} err={err} ids={showInts arr} st={s} n={nreqs nc}" ++ st.dump nc

def step (st : St) (rank : Nat) (line : String) : St × List String :=
  let toks := (line.trimAscii.toString.splitOn " ").filter (· ≠ "")
  match toks with
  | "L" :: _n :: rest =>
    let vals := rest.map (fun s => s.toInt?.getD 0)
    ({ st with begins := vals.take 8, recsize := vals.getD 8 0 }, [])
  | "CASE" :: idx :: nranks :: _ =>
    ({ st with nc := { numrecs := 3 }, hs := Array.replicate 128 {}, dead := false, single := nranks == "1" },
     [s!"CASE {idx} layout " ++ " ".intercalate (st.begins.map toString) ++ s!" {st.recsize}"])
  | op :: r :: rest =>
    if r.toNat? != some rank then (st, []) else
    if op == "END" then (st, ["END"])
    else if op == "B" then (st, ["B err=0"])
    else if op == "E" then (st, ["E err=0"])
    else if st.dead then (st, ["DEAD"])
    else if op == "P" then
      match rest with
      | h :: kind :: var :: api :: zero :: _nsubs :: start0 :: erange :: maxrec :: _mt :: _bl :: _imap :: nreq :: more =>
        let h := h.toNat?.getD 0
        let v := var.toNat?.getD 0
        let z := zero.toNat?.getD 0
        if z == 1 then (st, [s!"P h{h} err=0 id=-1" ++ st.dump st.nc])
        else if z == 2 then (st, [s!"P h{h} err=* id=-1" ++ st.dump st.nc])
        else
          let begin := st.begins.getD v 0
          let nums := more.map (fun s => s.toInt?.getD 0)
          let subs := subsOf h v api (nreq.toNat?.getD 1) nums
          let isPut := kind != "get"
          let s0 := start0.toInt?.getD 0
          let reqOff := if isPut then begin + (if isRec v then st.recsize * s0 else 0) else begin
          let sorted := isPut || api == "n"
          let q := if isPut then st.nc.put else st.nc.get
          let (q', id) := q.post (if isPut then 0 else 1) sorted begin reqOff (-1) h subs (maxrec.toInt?.getD (-1))
          let nc' := if isPut then { st.nc with put := q' } else { st.nc with get := q' }
          let st' := { st with nc := nc', hs := st.hs.modify h (fun _ => { id := id, erange := erange == "1", posted := true }) }
          (st', [s!"P h{h} err=0 id={id}" ++ st.dump nc'])
      | _ => (st, ["bad-P"])
    else if op == "W" then
      match rest with
      | _mode :: num :: hasst :: _expn :: ntok :: more =>
        let num := num.toInt?.getD 0
        let nt := ntok.toNat?.getD 0
        let tks := more.take nt
        let ids := tks.map (tokId st)
        let (st1, r, s2, e2) := doWait st num ids (hasst == "1")
        let l1 := fmtRes st "W" e2 num r.ids s2 st1.nc
        if r.err == NC_EINVAL_REQUEST then
          -- probes, then cancel everything, case is dead
          let hsNamed := (tks.filter (·.startsWith "h")).map (fun t => (t.drop 1).toString.toNat?.getD 0)
          let (st2, lines, _) := hsNamed.foldl (fun (acc : St × List String × List Nat) h =>
            let (s, ls, seen) := acc
            if seen.contains h then acc else
            let hh := s.hs[h]?.getD {}
            if !hh.posted || hh.state != 0 then (s, ls, h :: seen) else
            let (s', r', sx, ex) := doWait s 1 [hh.id] true
            let idn := r'.ids.headD 0
            let stn := (sx.getD []).headD 0
            let s' := if ex != NC_EINVAL_REQUEST && idn == -1 then markSpecDone s' [h] else s'
            (s', ls ++ [s!"R h{h} err={ex} ids={idn} st={stn} n={nreqs s'.nc}" ++ s'.dump s'.nc], h :: seen)) (st1, [], [])
          let c := cancel st2.nc (-1) [] none
          let st3 := { st2 with nc := c.nc, dead := true }
          (st3, [l1] ++ lines ++ [s!"K err={c.err} n={nreqs c.nc}" ++ st3.dump c.nc])
        else
          let rest2 := more.drop nt
          let nexp := (rest2.headD "0").toNat?.getD 0
          let exps := ((rest2.drop 1).take nexp).map (fun s => s.toNat?.getD 0)
          (markSpecDone st1 exps, [l1])
      | _ => (st, ["bad-W"])
    else if op == "X" then
      match rest with
      | num :: hasst :: _expn :: ntok :: more =>
        let num := num.toInt?.getD 0
        let nt := ntok.toNat?.getD 0
        let ids := (more.take nt).map (tokId st)
        let sts := if hasst == "1" then some (ids.map (fun _ => (777 : Int))) else none
        let c := cancel st.nc num ids sts
        let st' := { st with nc := c.nc }
        (st', [fmtRes st "X" c.err num c.ids c.st c.nc])
      | _ => (st, ["bad-X"])
    else (st, [])
  | _ => (st, [])

partial def loopNb (h : IO.FS.Stream) (out : IO.FS.Stream) (rank : Nat) (st : St) : IO Unit := do
  let line ← h.getLine
  if line.isEmpty then return ()
  let (st', ls) := step st rank line
  for l in ls do out.putStrLn l
  loopNb h out rank st'

/-! unit stream -/
open PnVerif.Merge in
def showSegs (l : List Seg) : String := " ".intercalate (l.map (fun s => s!"{s.off},{s.len},{s.buf}"))
def showBlocks (l : List (Int × Int)) : String := " ".intercalate (l.map (fun p => s!"{p.1},{p.2}"))

open PnVerif.Merge in
def parseSegs : List Int → List Seg
  | o :: l :: b :: rest => ⟨o, l, b⟩ :: parseSegs rest
  | _ => []

open PnVerif.Merge in
def stepUnit (line : String) : String :=
  let toks := (line.trimAscii.toString.splitOn " ").filter (· ≠ "")
  match toks with
  | "M" :: _n :: rest =>
    let segs := parseSegs (rest.map (fun s => s.toInt?.getD 0))
    let m := mergeRequests segs
    s!"M {m.length} " ++ showSegs m ++ " F " ++ showBlocks (fileType m) ++ " B " ++ showBlocks (bufType m)
  | "F" :: ndim :: el :: offset :: baddr :: rest =>
    let nd := ndim.toNat?.getD 0
    let v := rest.map (fun s => s.toNat?.getD 0)
    let segs := PnVerif.Flatten.varsFlatten (el.toNat?.getD 1) (offset.toNat?.getD 0) (v.take nd) (baddr.toInt?.getD 0)
                  ((v.drop nd).take nd) ((v.drop (2 * nd)).take nd) ((v.drop (3 * nd)).take nd)
    if segs.isEmpty then "F 0" else s!"F {segs.length} " ++ showSegs segs
  | "G" :: _n :: rest =>
    let rec pairsOf : List Int → List (Int × Int)
      | a :: b :: r => (a, b) :: pairsOf r
      | _ => []
    let b := PnVerif.Flatten.bufBlocks (pairsOf (rest.map (fun s => s.toInt?.getD 0)))
    s!"G {b.length} " ++ showBlocks b
  | _ => "bad-op"

partial def loopUnit (h : IO.FS.Stream) (out : IO.FS.Stream) : IO Unit := do
  let line ← h.getLine
  if line.isEmpty then return ()
  out.putStrLn (stepUnit line)
  loopUnit h out

end C02Drv

def main (args : List String) : IO Unit := do
  let out ← IO.getStdout
  let inp ← IO.getStdin
  match args with
  | ["nb", r] => C02Drv.loopNb inp out (r.toNat?.getD 0) {}
  | ["nb", r, flags] =>
    -- flags: n = req_commit scans all leads for numrecs (F21 repaired), r = refusal clears the marks (F19 repaired),
    --        s = shortcuts compare req_ids with the queue (F4 repaired); "-" = code as found
    let V : ReqQueue.Variant := { numrecsAllLeads := flags.contains 'n', clearOnRefusal := flags.contains 'r',
                                  shortcutChecksIds := flags.contains 's' }
    C02Drv.loopNb inp out (r.toNat?.getD 0) { V := V }
  | ["unit"] => C02Drv.loopUnit inp out
  | _ => IO.eprintln "usage: c02drv nb <rank> | unit"
