import PnVerif.Model.Redef
/-
  C06 correspondence driver.  One request per line on stdin, one answer per line on stdout.
  Files are hex strings ("-" = empty file).  Every M*/ED line is prefixed with the read mode of the
  model: `S` (short counts at end of file) or `F<b>` (full counts, bytes past the end read as <b>).

    MB <nprocs> <unit> <to> <from> <nbytes> <file>                       -> file after move_file_block
    MF <nprocs> <unit> <nvars> (<oldbegin> <newbegin> <len> <isrec>)* <file>   -> file after move_fixed_vars
    MR <nprocs> <unit> <newoff> <oldoff> <newrecsize> <oldrecsize> <nrecs> <file> -> file after move_record_vars
    ED <nprocs> <unit> <oBV> <oBR> <oRS> <nBV> <nBR> <nRS> <nvarsNew> <numrecs> <nold> (<ob> <nb> <len> <isrec>)* <file>
                                                                          -> file after the moving block of ncmpio__enddef
    AB <isNew> <indef> <indep> <readonly> <hasOld> <numRecVars> <redefFirst> -> removed | kept <n syncs by redef> <n syncs by abort>
-/
open PnVerif.Redef

def hexVal (c : Char) : Option Nat :=
  if '0' ≤ c ∧ c ≤ '9' then some (c.toNat - '0'.toNat)
  else if 'a' ≤ c ∧ c ≤ 'f' then some (c.toNat - 'a'.toNat + 10)
  else if 'A' ≤ c ∧ c ≤ 'F' then some (c.toNat - 'A'.toNat + 10)
  else none

def parseHexFile (s : String) : Option File :=
  if s == "-" then some [] else
  let rec go : List Char → List UInt8 → Option (List UInt8)
    | [], acc => some acc.reverse
    | [_], _ => none
    | a :: b :: rest, acc =>
      match hexVal a, hexVal b with
      | some x, some y => go rest (UInt8.ofNat (x * 16 + y) :: acc)
      | _, _ => none
  go s.toList []

def hexDigit (n : Nat) : Char := if n < 10 then Char.ofNat (48 + n) else Char.ofNat (87 + n)

def showFile (f : File) : String :=
  if f.isEmpty then "-" else
  String.ofList (f.foldr (fun b acc => hexDigit (b.toNat / 16) :: hexDigit (b.toNat % 16) :: acc) [])

def nats (xs : List String) : Option (List Nat) := xs.mapM String.toNat?

def parseVars : Nat → List Nat → Option (List MVar × List Nat)
  | 0, rest => some ([], rest)
  | n + 1, o :: nw :: l :: r :: rest =>
    match parseVars n rest with
    | some (vs, rest') => some (⟨o, nw, l, r != 0⟩ :: vs, rest')
    | none => none
  | _, _ => none

def parseMode (s : String) : Option ReadMode :=
  if s == "S" then some .short
  else if s.startsWith "F" then (s.drop 1).toNat?.map fun b => ReadMode.full (fun _ => UInt8.ofNat b)
  else none

def stepM (m : ReadMode) (toks : List String) : String :=
  match toks with
  | ["MB", np, un, to, frm, nb, fl] =>
    match nats [np, un, to, frm, nb], parseHexFile fl with
    | some [np, un, to, frm, nb], some f => showFile (moveBlock m np un f to frm nb)
    | _, _ => "bad-args"
  | "MF" :: np :: un :: nv :: rest =>
    match rest.getLast?, nats (np :: un :: nv :: rest.dropLast) with
    | some fl, some (np :: un :: nv :: nums) =>
      match parseVars nv nums, parseHexFile fl with
      | some (vs, []), some f => showFile (moveFixed m np un f vs)
      | _, _ => "bad-args"
    | _, _ => "bad-args"
  | ["MR", np, un, no, oo, nr, or_, n, fl] =>
    match nats [np, un, no, oo, nr, or_, n], parseHexFile fl with
    | some [np, un, no, oo, nr, or_, n], some f => showFile (moveRecords m np un f no oo nr or_ n)
    | _, _ => "bad-args"
  | "ED" :: rest =>
    match rest.getLast?, nats rest.dropLast with
    | some fl, some (np :: un :: obv :: obr :: ors :: nbv :: nbr :: nrs :: nvn :: nrec :: nold :: nums) =>
      match parseVars nold nums, parseHexFile fl with
      | some (vs, []), some f =>
        showFile (enddefMove m np un f ⟨obv, obr, ors⟩ ⟨nbv, nbr, nrs⟩ nvn nrec vs)
      | _, _ => "bad-args"
    | _, _ => "bad-args"
  | _ => "bad-op"

def step (line : String) : String :=
  let toks := (line.trimAscii.toString.splitOn " ").filter (· ≠ "")
  match toks with
  | ["DO", indef, opc, srcIndef] =>
    -- DO <target indef> <op 0..9> <source indef>  -> unchanged | header-written   (metaOpDisk; header write = marker byte)
    match nats [indef, opc, srcIndef] with
    | some [indef, opc, srcIndef] =>
      let ops : List MetaOp := [.defDim, .defVar, .putAtt, .delAtt, .renameAtt, .renameDim, .renameVar, .setFill, .defVarFill,
                                .copyAtt (srcIndef != 0)]
      match ops[opc]? with
      | some op =>
        let s : NCState := ⟨false, indef != 0, false, false, indef != 0, 0⟩
        match metaOpDisk (fun f => f ++ [1]) s (some []) op with
        | some [] => "unchanged"
        | _ => "header-written"
      | none => "bad-args"
    | _ => "bad-args"
  | ["AB", isNew, indef, indep, ro, hasOld, nrv, redefFirst] =>
    match nats [isNew, indef, indep, ro, hasOld, nrv, redefFirst] with
    | some [isNew, indef, indep, ro, hasOld, nrv, redefFirst] =>
      -- the numrecs sync appends one marker byte, so the number of syncs is visible in the result
      let sync : File → File := fun f => f ++ [1]
      let s : NCState := ⟨isNew != 0, indef != 0, indep != 0, ro != 0, hasOld != 0, nrv⟩
      let d : Disk := some []
      let (s1, d1) := if redefFirst != 0 then redef sync s d else (s, d)
      let n1 := (d1.getD []).length
      match abort sync s1 d1 with
      | none => "removed"
      | some f => s!"kept {n1} {f.length - n1}"
    | _ => "bad-args"
  | md :: rest =>
    match parseMode md with
    | some m => stepM m rest
    | none => "bad-mode"
  | _ => "bad-op"

partial def loop (h : IO.FS.Stream) (out : IO.FS.Stream) : IO Unit := do
  let line ← h.getLine
  if line.isEmpty then return ()
  out.putStrLn (step line)
  loop h out

def main : IO Unit := do
  let out ← IO.getStdout
  loop (← IO.getStdin) out
