import PnVerif.Spec.ModeSpec
/-
  C14 correspondence driver: the same script lines that harness/c14_mode.c executes on the real
  library are interpreted here by the model (`Mode.step`) and, independently, by the documented
  automaton (`ModeSpec.specStep`, which keeps its own abstract state).

    S <created|openrw|openro> <hasRec> <cfg>   -> st <state> | sm=<mode> sro= snew= sopen=
    C <call> <args..>                            -> e=<code> <state> wr= del= val= | se=<code> sm= sro= snew= sopen= sdel=
    P <call> <args..>   (state restored after)   -> same
    E                                            -> ok
    <state> = D=<hex> N=<hex> old= ab= g= p= b= rc=   or   closed
-/
open PnVerif.Mode PnVerif.ModeSpec

def b01 (b : Bool) : String := if b then "1" else "0"

def hex (n : Nat) : String := String.ofList (Nat.toDigits 16 n)

def showState (s : State) : String :=
  if !s.opened then "closed"
  else s!"D={hex s.d.word} N={hex s.n.word} old={b01 s.old} ab={b01 s.abuf} g={s.nGet} p={s.nPut} b={s.nBput} rc={b01 s.recCommit}"

def showMode : PnVerif.ModeSpec.Mode → String
  | .define => "define" | .coll => "coll" | .indep => "indep"

def showA (a : AState) : String :=
  s!"sm={showMode a.mode} sro={b01 a.rdonly} snew={b01 a.isNew} sopen={b01 a.opened}"

def pb (s : String) : Bool := s == "1"

def pv (s : String) : VarArg :=
  if s == "g" then .global else if s == "b" then .bad else if s == "f" then .fixed
  else if s == "r" then .recv else .chr

/-- type letter of the harness -> class of x_len_NC_attrV: c char, b byte | s short | i int, f float | d double -/
def px (s : String) : XT :=
  if s == "c" || s == "b" then .x1 else if s == "s" then .x2 else if s == "d" then .x8 else .x4

def parseCall : List String → Option Call
  | ["enddef"] => some .enddef
  | ["enddefargs", n] => some (.enddefArgs (pb n))
  | ["redef"] => some .redef
  | ["begin"] => some .beginIndep
  | ["end"] => some .endIndep
  | ["close"] => some .close
  | ["abort"] => some .abort
  | ["defdim", u] => some (.defDim (pb u))
  | ["defvar", u, r] => some (.defVar (pb u) (pb r))
  | ["defvarfill", v] => some (.defVarFill (pv v))
  | ["setfill"] => some .setFill
  | ["delatt", v, nb, ex] => some (.delAtt (pv v) (pb nb) (pb ex))
  -- putatt v nameBad typeBad charMix negLen exists oldType oldCount newType newCount [attribute name: C side only]
  | "putatt" :: v :: nb :: tb :: cm :: nl :: ex :: ot :: on :: nt :: nn :: _ =>
    some (.putAtt (pv v) (pb nb) (pb tb) (pb cm) (pb nl) (pb ex) (px ot) on.toNat! (px nt) nn.toNat!)
  | ["getatt", v, nb, ex] => some (.getAtt (pv v) (pb nb) (pb ex))
  | "copyatt" :: vi :: vo :: nb :: se :: de :: st :: sn :: dt :: dn :: _ =>
    some (.copyAtt (pb vi) (pb vo) (pb nb) (pb se) (pb de) (px st) sn.toNat! (px dt) dn.toNat!)
  | "renameatt" :: v :: nb :: ex :: iu :: ol :: nl :: _ => some (.renameAtt (pv v) (pb nb) (pb ex) (pb iu) ol.toNat! nl.toNat!)
  | ["renamevar", v, nb, iu, ol, nl] => some (.renameVar (pv v) (pb nb) (pb iu) ol.toNat! nl.toNat!)
  | ["renamedim", nb, db, iu, ol, nl] => some (.renameDim (pb nb) (pb db) (pb iu) ol.toNat! nl.toNat!)
  -- rw isPut coll v text coordBad flavour [z]   (z: the zero-length form of that flavour)
  | "rw" :: p :: c :: v :: t :: cb :: fl :: z => some (.rw (pb p) (pb c) (pv v) (pb t) (pb cb) (fl == "varn") (z == ["z"]))
  | ["rw", p, c, v, t, cb] => some (.rw (pb p) (pb c) (pv v) (pb t) (pb cb) false false)
  | "post" :: k :: v :: t :: cb :: fl =>
    let kind := if k == "iput" then PostKind.iput else if k == "iget" then PostKind.iget else PostKind.bput
    some (.post kind (pv v) (pb t) (pb cb) (fl.head? == some "varn") (fl.drop 1 == ["z"]))
  | ["wait", c, z] => some (.wait (pb c) (pb z))
  | ["cancel", z] => some (.cancel (pb z))
  | ["sync"] => some .sync
  | ["syncnumrecs"] => some .syncNumrecs
  | ["flush"] => some .flush
  | ["fillvarrec", v] => some (.fillVarRec (pv v))
  | ["attach", p] => some (.attach (pb p))
  | ["detach"] => some .detach
  | "inq" :: _ => some .inq
  | ["inqvar", v] => some (.inqVar (pv v))
  | ["inqnreqs"] => some .inqNreqs
  | "inqbuf" :: _ => some .inqBuf
  | _ => none

structure DS where
  cfg : Cfg := Cfg.pinned
  s : State := closed
  a : AState := aclosed

def toks (line : String) : List String :=
  (line.splitOn " ").filter (fun t => t != "")

def handle (ds : DS) (line : String) : DS × String :=
  match toks line.trimAscii.toString with
  | ["S", kind, hr, cfg] =>
    let r := pb hr
    let s := if kind == "created" then created r else openedFile (kind == "openrw") r
    let a := abs s     -- the documented initial state is the abstraction of the initial flags
    -- cfg: bit 0 = fillChecksErr, bit 1 = multi
    let n := cfg.toNat!
    ({ cfg := ⟨n % 2 == 1, n / 2 % 2 == 1⟩, s := s, a := a }, s!"st {showState s} | {showA a}")
  | ["E"] => (ds, "ok")
  | k :: rest =>
    if k == "C" || k == "P" then
      match parseCall rest with
      | none => (ds, "bad-call")
      | some c =>
        let o := step ds.cfg ds.s c
        let so := specStep ds.a c
        let out := s!"e={o.err.code} {showState o.st} wr={b01 o.wr} del={b01 o.del} val={o.val} | se={so.err.code} {showA so.st} sdel={b01 so.del}"
        if k == "C" then ({ ds with s := o.st, a := so.st }, out) else (ds, out)
    else (ds, "bad-line")
  | [] => (ds, "")

partial def loop (h : IO.FS.Stream) (out : IO.FS.Stream) (ds : DS) : IO Unit := do
  let line ← h.getLine
  if line.isEmpty then return ()
  let (ds', o) := handle ds line
  out.putStrLn o
  loop h out ds'

def main : IO Unit := do
  let out ← IO.getStdout
  loop (← IO.getStdin) out {}
