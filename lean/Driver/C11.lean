import PnVerif.Model.IoStatus
import PnVerif.Gen.ErrMap
import PnVerif.Gen.IoSites
/-
  C11 correspondence driver.  One request per line on stdin, one answer per line on stdout.

    P <site id> <chain row ids joined by ','  or '-'> <MPI class value> <later 0|1>
        -> <pick> | <possible outcomes ...> | <row that drops the failure or '-'> | <api name or '?'>

  `site id`/`chain row ids` identify the rows of the GENERATED tables the run-time backtrace of the
  fault-injection harness went through; the answer is what the model says the driver entry point
  returns.  `later` = the same request mix has a later phase that overwrites `err` (a wait_all with
  gets after the puts): selects the element of an `overwritable` row, exactly as `commitStatus`.

    T  -> number of sites, chains, paths (sanity line)
-/
open PnVerif.IoStatus PnVerif.Gen.IoSites PnVerif.Gen.ErrMap

def ncOf (cls : Nat) : Int := mpi2nc explicitMap defaultCode cls

/-- deterministic evaluation of one row for incoming code r -/
def pickRow (isCommit : Bool) (pattern : Pattern) (out : Outcome) (later : Bool) (r : Int) : Option Int :=
  match out.eval r with
  | [v] => some v
  | [a, b] =>
    -- only req_commit's write-phase row is resolved by the request mix; any other row with two
    -- outcomes depends on something the tables do not see (e.g. `xbuf == buf`): no prediction
    if isCommit && pattern == .overwritable then
      -- [commitStatus true false r 0, commitStatus true true r 0]
      some (if later then commitStatus true true a b else commitStatus true false a b)
    else none
  | _ => none

def splitOn (s : String) (c : Char) : List String := (s.splitOn (String.singleton c)).filter (· != "")

def answer (siteId chainS clsS laterS : String) : String :=
  match sites.find? (fun s => s.id == siteId), clsS.toNat? with
  | some s, some cls =>
    let ids := if chainS == "-" then [] else splitOn chainS ','
    let rows := ids.map (fun id => chains.find? (fun c => c.id == id))
    if rows.any (·.isNone) then "unknown-chain-row" else
    let rows := rows.filterMap id
    let later := laterS == "1"
    let m := ncOf cls
    -- well-formedness of the observed path against the table
    let linked := (rows.foldl (fun (acc : Option String) ch =>
        match acc with
        | some f => if ch.callee == f then some ch.caller else none
        | none => none) (some s.func))
    match linked with
    | none => "path-not-linked"
    | some api =>
      let inTable := paths.any (fun p => p.fn == s.fn && p.chainKeys == rows.map (·.key))
      let all := runChains rows (s.out.eval m)
      -- deterministic pick + first dropping row
      let step := fun (acc : Option Int × String) (nm : String) (isCommit : Bool) (pat : Pattern) (out : Outcome) =>
        match acc.1 with
        | none => acc
        | some r =>
          if r == 0 then acc else
          match pickRow isCommit pat out later r with
          | none => (none, acc.2)
          | some v => (some v, if v == 0 && acc.2 == "-" then nm else acc.2)
      let a0 : Option Int × String :=
        match pickRow false s.pattern s.out later m with
        | none => (none, "-")
        | some v => (some v, if v == 0 then s.id else "-")
      let fin := rows.foldl (fun acc ch => step acc ch.id (ch.caller == "req_commit") ch.pattern ch.out) a0
      let pick := match fin.1 with | some v => toString v | none => "ambiguous"
      s!"{pick} | {String.intercalate " " (all.map toString)} | {fin.2} | {api} | {if inTable then "in-table" else "NOT-IN-TABLE"}"
  | _, _ => "bad-request"

def step (line : String) : String :=
  match splitOn line.trimAscii.toString ' ' with
  | ["P", site, chain, cls, later] => answer site chain cls later
  | ["T"] => s!"{sites.length} {chains.length} {paths.length}"
  | _ => "bad-op"

partial def loop (h : IO.FS.Stream) (out : IO.FS.Stream) : IO Unit := do
  let line ← h.getLine
  if line.isEmpty then return ()
  out.putStrLn (step line)
  loop h out

def main : IO Unit := do
  let out ← IO.getStdout
  loop (← IO.getStdin) out
