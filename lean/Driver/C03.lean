import PnVerif.Model.HeaderText
import PnVerif.Model.Layout
/-
  C03 correspondence driver.  One request per line on stdin, one answer per line on stdout.

    LAYOUT <envH> <envV> <envR> <h_minfree> <v_align> <v_minfree> <r_align> <begin_rec0> <old> <schema>
        <old> = N                                   (ncp->old == NULL)
              | O <begin_var> <begin_rec> <n> {<isRec 0|1> <begin>}*n
        <schema> without layout (begin / vsize fields ignored), numrecs as it stands
      -> OK <xsz> <begin_var> <begin_rec> <recsize> <h_align> <v_align> <r_align> <n> {<isRec> <len> <begin>}*n | <hex of Hdr.encode>
         ERR <NC code>
    ENCL <schema, begin fields set, vsize fields = variable lengths>   -> <hex of Hdr.encode> | ERR code
    OPENINFO <0|1> <hex> -> Header.decodeWholeV (what ncmpi_open leaves in memory; 1 = tree with the repair of FB2-1): OK <xsz> <begin_var> <begin_rec> <recsize> | ERR code
    SPEC <hex>    -> Spec.header: OK <schema as stored> | <refsOk> <bytes consumed>    or NONE

  schema / hex syntax: PnVerif/Model/HeaderText.lean
-/
open PnVerif PnVerif.Spec PnVerif.Header PnVerif.HeaderText PnVerif.Layout

def tOld : TP (Option Old)
  | "N" :: r => some (none, r)
  | "O" :: r => do
    let (bv, r) ← tNat r
    let (br, r) ← tNat r
    let (n, r) ← tNat r
    let (ps, r) ← tMany (fun ts => do
      let (a, ts) ← tNat ts
      let (b, ts) ← tNat ts
      some ((a != 0, b), ts)) n r
    some (some { beginVar := bv, beginRec := br, vars := ps }, r)
  | _ => none

def doLayout (ts : List String) : Option String := do
  let (envH, ts) ← tNat ts
  let (envV, ts) ← tNat ts
  let (envR, ts) ← tNat ts
  let (hMin, ts) ← tNat ts
  let (argV, ts) ← tNat ts
  let (vMin, ts) ← tNat ts
  let (argR, ts) ← tNat ts
  let (br0, ts) ← tNat ts
  let (old, ts) ← tOld ts
  let (h, _) ← tSchema ts
  match varsOf h with
  | .error e => some s!"ERR {e.code}"
  | .ok vars =>
    -- ncmpio__enddef: num_fix_vars uses the num_rec_vars left by the previous enddef / open
    let staleRec := match old with
      | some o => (o.vars.filter (·.1)).length
      | none => 0
    let al := resolveAlign envH envV envR hMin argV vMin argR (vars.length - staleRec) old.isSome
    -- ncmpio_NC_check_vlens precedes NC_begins
    match checkVlens h.fmt.version ((h.vars.map (fun v => v.xtype.size)).zip
            (h.vars.map (fun v => match varShape64 h.dims v with | .ok (s, _) => s | .error _ => []))) with
    | .error e => some s!"ERR {e.code}"
    | .ok () =>
    match ncBegins h.fmt (Hdr.len h) vars al br0 old with
    | .error e => some s!"ERR {e.code}"
    | .ok L =>
      let begins := L.begins vars
      let h' : Hdr := { h with vars := (h.vars.zip begins).map (fun (v, b) => { v with begin := b }) }
      let lens := vars.map (·.len)
      let enc := match Hdr.encode h' lens with
        | .ok b => toHex b
        | .error e => s!"ENCERR{e.code}"
      let per := String.intercalate " " ((vars.zip begins).map (fun (v, b) => s!"{if v.isRec then 1 else 0} {v.len} {b}"))
      some s!"OK {L.xsz} {L.beginVar} {L.beginRec} {L.recsize} {al.hAlign} {al.vAlign} {al.rAlign} {vars.length} {per} | {enc}"

def step (line : String) : String :=
  match tokens line.trimAscii.toString with
  | "LAYOUT" :: ts => (doLayout ts).getD "bad-request"
  | "ENCL" :: ts =>
    match tSchema ts with
    | some (h, []) =>
      match Hdr.encode h (h.vars.map (·.vsize)) with
      | .ok b => toHex b
      | .error e => s!"ERR {e.code}"
    | _ => "bad-schema"
  | ["OPENINFO", v, hex] =>
    match ofHex hex with
    | none => "bad-hex"
    | some file =>
      match decodeWholeV (v == "1") file with
      | .ok (_, info) => s!"OK {info.xsz} {info.beginVar} {info.beginRec} {info.recsize}"
      | .error e => s!"ERR {e.code}"
  | ["SPEC", hex] =>
    match ofHex hex with
    | none => "bad-hex"
    | some file =>
      match Spec.header file with
      | some (d, rest) => s!"OK {showSchema d} | {d.refsOk} {file.length - rest.length}"
      | none => "NONE"
  | _ => "bad-op"

partial def loop (h : IO.FS.Stream) (out : IO.FS.Stream) : IO Unit := do
  let line ← h.getLine
  if line.isEmpty then return ()
  out.putStrLn (step line)
  out.flush
  loop h out

def main : IO Unit := do
  let out ← IO.getStdout
  loop (← IO.getStdin) out
