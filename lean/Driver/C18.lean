import PnVerif.Model.SizeLimits
import PnVerif.Spec.SizeRules
/-
  C18 correspondence driver.  One request per line on stdin, one answer per line on stdout.

    D fmt size
        -> <defDim err> <DimOK 0|1>
    T fmt beginVar vminfree ralign nvars { xsz isrec nd len.. }      (original NC_begins)
    G fmt beginVar vminfree ralign nvars { xsz isrec nd len.. }      (repaired NC_begins, C18-begins-overflow.diff)
        -> dv=<defVar err per variable> e=<enddef err> sr=<SizeRules 0|1> br=<BeginRule 0|1> er=<EndRule 0|1>
           b=<begin per accepted variable, definition order> brec=<begin_rec> rs=<recsize>
           vs=<vsize field per accepted variable> len=<varp->len per accepted variable>

  Variables rejected by def_var (NC_EVARSIZE) do not exist at enddef, as in the library.
-/
open PnVerif.SizeLimits PnVerif.Spec.SizeRules

def parseVars : Nat → List String → Option (List Var)
  | 0, _ => some []
  | n + 1, xs :: ir :: nd :: rest =>
    match xs.toNat?, nd.toNat? with
    | some xsz, some nd =>
      let ds := (rest.take nd).filterMap String.toNat?
      if ds.length ≠ nd then none else
      let isRec := ir != "0"
      -- the record dimension's entry (0 = NC_UNLIMITED) is not part of the size
      let dims := if isRec then ds.drop 1 else ds
      match parseVars n (rest.drop nd) with
      | some vs => some ({ xsz := xsz, isRec := isRec, dims := dims } :: vs)
      | none => none
    | _, _ => none
  | _, _ => none

def commaList (xs : List String) : String := if xs.isEmpty then "-" else String.intercalate "," xs

/-- begins in definition order from the two per-kind lists -/
def mergeBegins : List Var → List Nat → List Nat → List Nat
  | [], _, _ => []
  | v :: vs, fb, rb =>
    if v.isRec then
      match rb with
      | b :: rb' => b :: mergeBegins vs fb rb'
      | [] => []
    else
      match fb with
      | b :: fb' => b :: mergeBegins vs fb' rb
      | [] => []

def doT (guarded : Bool) (fmt bv vm ra nv : Nat) (l : List String) : String :=
  match parseVars nv l with
  | none => "bad-op"
  | some vars =>
    let dv := vars.map (fun v => (defVar v).1)
    let ok := vars.filter (fun v => (defVar v).1 == 0)
    let lay : Lay := { beginVar := bv, vMinfree := vm, rAlign := ra }
    let r := if guarded then enddefG fmt lay ok else enddef fmt lay ok
    let sr : Nat := if decide (SizeRules fmt ok) then 1 else 0
    let brOK : Bool :=
      fmt != 1 ||
      ((List.range (fixedVars ok).length).all (fun k => fixedBegin lay ok k < 2147483648) &&
       (List.range (recVars ok).length).all (fun k => recBegin lay ok k < 2147483648))
    let br : Nat := if brOK then 1 else 0
    let er : Nat := if recSection lay ok + sumLens (recVars ok) ≤ 9223372036854775807 then 1 else 0
    let tail := match r.2 with
      | none => "b=- brec=- rs=-"
      | some b =>
        s!"b={commaList ((mergeBegins ok b.fixed b.recs).map toString)} brec={b.beginRec} rs={b.recsize}"
    s!"dv={commaList (dv.map toString)} e={r.1} sr={sr} br={br} {tail} er={er} " ++
    s!"vs={commaList (ok.map (fun v => toString (vsizeField fmt (varLen v))))} len={commaList (ok.map (fun v => toString (varLen v)))}"

def step (line : String) : String :=
  match (line.trimAscii.toString.splitOn " ").filter (· != "") with
  | ["D", fmt, size] =>
    match fmt.toNat?, size.toInt? with
    | some f, some s =>
      let ok : Nat := if 0 ≤ s ∧ (f ≠ 5 → s ≤ 2147483647) then 1 else 0
      s!"{defDim f s} {ok}"
    | _, _ => "bad-op"
  | "T" :: fmt :: bv :: vm :: ra :: nv :: l =>
    match fmt.toNat?, bv.toNat?, vm.toNat?, ra.toNat?, nv.toNat? with
    | some f, some b, some m, some r, some n => doT false f b m r n l
    | _, _, _, _, _ => "bad-op"
  | "G" :: fmt :: bv :: vm :: ra :: nv :: l =>
    match fmt.toNat?, bv.toNat?, vm.toNat?, ra.toNat?, nv.toNat? with
    | some f, some b, some m, some r, some n => doT true f b m r n l
    | _, _, _, _, _ => "bad-op"
  | _ => "bad-op"

partial def loop (h : IO.FS.Stream) (out : IO.FS.Stream) : IO Unit := do
  let line ← h.getLine
  if line.isEmpty then return ()
  out.putStrLn (step line)
  loop h out

def main : IO Unit := do
  let out ← IO.getStdout
  loop (← IO.getStdin) out
