import PnVerif.Model.HeaderText
import PnVerif.Model.Safety
/-
  C04 correspondence driver.  One request per line on stdin, one answer per line on stdout.

    ENC <schema>            -> <hex of Header.encodeRaw> <Hdr.len> <offset of dim tag> <gatt tag> <var tag>
    VARIANT <0|1>           -> 1: the tree carries the repair of finding FB2-1 (compute_var_shape sets begin_var =
                               begin_rec = xsz when there is no variable); answers VARIANT <0|1>.  Default 0.
    REPAIRS <int63> <eof>   -> which repairs of the C19 findings the tree carries (0|1 each; Safety.Variant: int63 = 64-bit
                               header fields with the sign bit set / begin+len beyond 2^63-1 refused, eof = a header read
                               beyond the end of the file refused); answers REPAIRS <int63> <eof>.  Default 0 0 = the
                               reader as it stands (Safety.decodeWholeVar Variant.current = Header.decodeWhole).
    FILE <hexfile>          -> sets the current file; answers  FILE <length>
    DEC <chunk>             -> decodeChunked chunk of the current file:
                                   OK <schema, vsize := recomputed len> | xsz beginVar beginRec recsize numRecVars
                                   ERR <NC code>
    DEC W                   -> the same for decodeWhole
    SPEC                    -> Spec.specDecode: OK <schema as stored> | refsOk   or  NONE

  schema / hex syntax: PnVerif/Model/HeaderText.lean
-/
open PnVerif PnVerif.Spec PnVerif.Header PnVerif.HeaderText

def showDecoded (r : Except Err (Hdr × Info)) : String :=
  match r with
  | .error e => s!"ERR {e.code}"
  | .ok (h, info) =>
    let h' : Hdr := { h with vars := (h.vars.zip info.lens).map (fun (v, l) => { v with vsize := l }) }
    s!"OK {showSchema h'} | {info.xsz} {info.beginVar} {info.beginRec} {info.recsize} {info.numRecVars}"

/-- the decoders of the tree's variant: FB2-1 (`fixed`, Header.fixInfo) on top of the C19 repairs `v` -/
def decW (fixed : Bool) (v : Safety.Variant) (file : Bytes) : Except Err (Hdr × Info) :=
  if v == Safety.Variant.current then decodeWholeV fixed file
  else match Safety.decodeWholeVar v file with
    | .error e => .error e
    | .ok (h, info) => .ok (h, fixInfo fixed h info)

def decC (fixed : Bool) (v : Safety.Variant) (chunk : Nat) (file : Bytes) : Except Err (Hdr × Info) :=
  if v == Safety.Variant.current then decodeChunkedV fixed chunk file
  else match Safety.decodeChunkedVar v chunk file with
    | .error e => .error e
    | .ok (h, info) => .ok (h, fixInfo fixed h info)

def step (fixed : Bool) (v : Safety.Variant) (file : Bytes) (line : String) : String :=
  match tokens line.trimAscii.toString with
  | "ENC" :: ts =>
    match tSchema ts with
    | some (h, []) =>
      let w := sizeofNonNeg h.fmt.version
      let o1 := 4 + w
      let o2 := o1 + lenDimArray w h.dims
      let o3 := o2 + lenAttrArray w h.gatts
      s!"{toHex (encodeRaw h)} {Hdr.len h} {o1} {o2} {o3}"
    | _ => "bad-schema"
  | ["DEC", c] =>
    if c == "W" then showDecoded (decW fixed v file)
    else match c.toNat? with
      | some chunk => showDecoded (decC fixed v chunk file)
      | none => "bad-chunk"
  | ["SPEC"] =>
    match specDecode file with
    | some d => s!"OK {showSchema d} | {d.refsOk}"
    | none => "NONE"
  | _ => "bad-op"

partial def loop (h : IO.FS.Stream) (out : IO.FS.Stream) (fixed : Bool) (v : Safety.Variant) (file : Bytes) : IO Unit := do
  let line ← h.getLine
  if line.isEmpty then return ()
  match tokens line.trimAscii.toString with
  | ["FILE", hex] =>
    match ofHex hex with
    | some f => out.putStrLn s!"FILE {f.length}"; loop h out fixed v f
    | none => out.putStrLn "bad-hex"; loop h out fixed v file
  | ["VARIANT", x] =>
    out.putStrLn s!"VARIANT {x}"; loop h out (x == "1") v file
  | ["REPAIRS", a, b] =>
    out.putStrLn s!"REPAIRS {a} {b}"; loop h out fixed { int63 := (a == "1"), eof := (b == "1") } file
  | _ =>
    out.putStrLn (step fixed v file line)
    loop h out fixed v file

def main : IO Unit := do
  let out ← IO.getStdout
  loop (← IO.getStdin) out false Safety.Variant.current []
