import PnVerif.Model.Fill
/-
  C16 correspondence driver.  One request per line on stdin, one answer per line on stdout.

    SH <len> <nprocs> <rank>                                   -> <start> <count>
    FP <nprocs> <rank> <recsize> <nrecs> <nvars> (<begin> <xsz> <varLen> <isRec> <noFill>)*
                                                               -> <n> (<off> <len>)*      (n = -1: no write issued)
    FR <nprocs> <rank> <recsize> <recno> <begin> <xsz> <varLen> <isRec>   -> <off> <len>
    FB <nctype>                                                -> hex of the default fill bytes | none
    FM <op>*   with op = S0 | S1 | D | V<varid>:<nofill>       -> <dsFill> <n> <noFill flags>*
-/
open PnVerif.Fill

def nats (xs : List String) : Option (List Nat) := xs.mapM String.toNat?

def parseFVars : Nat → List Nat → Option (List FVar)
  | 0, [] => some []
  | n + 1, b :: x :: l :: r :: nf :: rest =>
    (parseFVars n rest).map fun vs => ⟨b, x, l, r != 0, nf != 0⟩ :: vs
  | _, _ => none

def hexDigit (n : Nat) : Char := if n < 10 then Char.ofNat (48 + n) else Char.ofNat (87 + n)
def showBytes (f : List UInt8) : String :=
  String.ofList (f.foldr (fun b acc => hexDigit (b.toNat / 16) :: hexDigit (b.toNat % 16) :: acc) [])

def parseFOp (s : String) : Option FOp :=
  if s == "S0" then some (.setFill false)
  else if s == "S1" then some (.setFill true)
  else if s == "D" then some .defVar
  else if s.startsWith "V" then
    match ((s.drop 1).toString.splitOn ":") with
    | [v, nf] => match v.toNat?, nf.toNat? with
      | some v, some nf => some (.varFill v (nf != 0))
      | _, _ => none
    | _ => none
  else none

def step (line : String) : String :=
  let toks := (line.trimAscii.toString.splitOn " ").filter (· ≠ "")
  match toks with
  | ["SH", len, np, r] =>
    match nats [len, np, r] with
    | some [len, np, r] => let s := share len np r; s!"{s.1} {s.2}"
    | _ => "bad-args"
  | "FP" :: rest =>
    match nats rest with
    | some (np :: r :: rs :: nrecs :: nv :: nums) =>
      match parseFVars nv nums with
      | some vs =>
        let pl := fillPlan np r rs nrecs vs
        -- element bytes by element size, as harness/c16_unit.c chooses the type: 1 BYTE, 2 SHORT, 4 INT, 8 DOUBLE
        let elem : FVar → List UInt8 := fun v =>
          (fillBytes (if v.xsz == 1 then 1 else if v.xsz == 2 then 3 else if v.xsz == 4 then 4 else 6)).getD []
        let buf := planBuf np r nrecs elem vs
        let bufS := if buf.isEmpty then "-" else showBytes buf
        if pl.isEmpty then "-1 | -"
        else String.intercalate " " (toString pl.length :: pl.map fun s => s!"{s.off} {s.len}") ++ " | " ++ bufS
      | none => "bad-args"
    | _ => "bad-args"
  | ["FR", np, r, rs, recno, b, x, l, isr] =>
    match nats [np, r, rs, recno, b, x, l, isr] with
    | some [np, r, rs, recno, b, x, l, isr] =>
      let s := fillRecWrite np r rs recno ⟨b, x, l, isr != 0, false⟩
      let elem := (fillBytes (if x == 1 then 1 else if x == 2 then 3 else if x == 4 then 4 else 6)).getD []
      let buf := fillBuf elem (share l np r).2
      s!"{s.off} {s.len} | " ++ (if buf.isEmpty then "-" else showBytes buf)
    | _ => "bad-args"
  | ["FB", t] =>
    match t.toNat? with
    | some t => match fillBytes t with
      | some bs => showBytes bs
      | none => "none"
    | none => "bad-args"
  | ["FV", path, vt, at_, n, old] =>
    -- FV <path 0 put|1 typed|2 def_var_fill|3 copy other file same var|4 copy other file other var|5 copy same file other var|6 self copy|7 rename> …
    match nats [path, vt, at_, n, old] with
    | some [path, vt, at_, n, old] =>
      let ps : List FvPath := [.putAtt, .putAttTyped, .defVarFill, .copyAtt false true, .copyAtt false false,
                               .copyAtt true false, .copyAtt true true, .renameAtt]
      match ps[path]? with
      | some p => toString (fvAccept p vt at_ n (old != 0))
      | none => "bad-args"
    | _ => "bad-args"
  | "FM" :: ops =>
    match ops.mapM parseFOp with
    | some ops =>
      let s := frun FState.init ops
      String.intercalate " " ((if s.dsFill then "1" else "0") :: toString s.noFill.length ::
        s.noFill.map fun b => if b then "1" else "0")
    | none => "bad-args"
  | _ => "bad-op"

partial def loop (h : IO.FS.Stream) (out : IO.FS.Stream) : IO Unit := do
  let line ← h.getLine
  if line.isEmpty then return ()
  out.putStrLn (step line)
  loop h out

def main : IO Unit := do
  let out ← IO.getStdout
  loop (← IO.getStdin) out
