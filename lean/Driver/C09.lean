import PnVerif.Gen.NcxTable
import PnVerif.Model.ConvLoop
import Driver.Round
/-
  C09 correspondence driver.  One request per line on stdin, one answer per line on stdout.

    P <prim> <fill|-> <cur|-> <v>           -> <model out> <model err> <spec out> <spec err>
    L <loop> <fill|-> <cur|-> <n> <v1..vn>  -> <n outs...> <model status> <spec status>

  integers are decimal; float/double values are IEEE bit patterns in hex (0x...).
-/
open PnVerif PnVerif.Gen.NcxTable PnVerif.Round

def parseVal (ct : String) (s : String) : Option Val :=
  if ct == "float" then (parseHex s).map (fun b => Val.f (dec32 b))
  else if ct == "double" then (parseHex s).map (fun b => Val.f (dec64 b))
  else s.toInt?.map Val.i

def showVal (ct : String) (v : Val) : String :=
  match v with
  | .i z => toString z
  | .f x =>
    if ct == "float" then (match enc32 x with | some b => toHex b | none => "unrepresentable")
    else (match enc64 x with | some b => toHex b | none => "unrepresentable")

def doPrim (name fillS curS vS : String) : String :=
  match info name with
  | none => "bad-op"
  | some (_, inct, outct) =>
    let fill := if fillS == "-" then none else parseVal outct fillS
    let cur := (if curS == "-" then none else parseVal outct curS).getD (Val.i 0)
    match parseVal inct vS with
    | none => "bad-value"
    | some v =>
      match model ieee name fill cur v, spec ieee name fill cur v with
      | some (mo, me), some (so, se) =>
        s!"{showVal outct mo} {me} {showVal outct so} {se}"
      | _, _ => "bad-op"

def doLoop (name fillS curS : String) (vs : List String) : String :=
  match loopInfo name with
  | none => "bad-op"
  | some (shape, elem, xct, tct) =>
    if shape == "memcpy" then String.intercalate " " vs ++ " 0 0"
    else
    match info elem with
    | none => "bad-op"
    | some (_, inct, outct) =>
      let fill := if fillS == "-" then none else parseVal outct fillS
      let cur := (if curS == "-" then none else parseVal outct curS).getD (Val.i 0)
      let vals := vs.filterMap (parseVal inct)
      if vals.length != vs.length then "bad-value" else
      let me := fun v => (model ieee elem fill cur v).getD (Val.i 0, -1)
      let se := fun v => (spec ieee elem fill cur v).getD (Val.i 0, -1)
      let r := if shape == "firstErr" then ConvLoop.loopFirst me vals else ConvLoop.loopLast me vals
      let sst := ConvLoop.firstErr (vals.map (fun v => (se v).2))
      let _ := xct; let _ := tct
      String.intercalate " " (r.1.map (showVal outct)) ++ s!" {r.2} {sst}"

def step (line : String) : String :=
  match line.trimAscii.toString.splitOn " " with
  | ["P", name, fill, cur, v] => doPrim name fill cur v
  | "L" :: name :: fill :: cur :: _n :: vs => doLoop name fill cur vs
  | _ => "bad-op"

partial def loop (h : IO.FS.Stream) (out : IO.FS.Stream) : IO Unit := do
  let line ← h.getLine
  if line.isEmpty then return ()
  out.putStrLn (step line)
  loop h out

def main : IO Unit := do
  let out ← IO.getStdout
  loop (← IO.getStdin) out
