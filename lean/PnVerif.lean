import PnVerif.Base.FV
import PnVerif.Base.FVLemmas
import PnVerif.Spec.ConvSpec
import PnVerif.Gen.Ncx
import PnVerif.Gen.NcxProofs
import PnVerif.Gen.NcxTable
import PnVerif.Model.ConvLoop
import PnVerif.Props.C09
