-- root of the library: the property files of every registered check (each imports its models/lemmas)
import PnVerif.Props.C01
import PnVerif.Props.C05
import PnVerif.Props.C06
import PnVerif.Props.C07
import PnVerif.Props.C08
import PnVerif.Props.C09
import PnVerif.Props.C10
import PnVerif.Props.C12
import PnVerif.Props.C15
import PnVerif.Props.C16
import PnVerif.Props.C17
import PnVerif.Props.C18
import PnVerif.Spec.Dataset
import PnVerif.Gen.NcxTable
import PnVerif.Gen.Consts
