import Driver.Round
import Driver.C09
