import Driver.Round
